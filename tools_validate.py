"""Developer helper (not part of any check): validate MANIFEST.json and evidence files against the schemas.
Run with python3-vt (has jsonschema)."""
import json, sys, glob
import jsonschema
m = json.load(open('/verif/MANIFEST.json'))
jsonschema.validate(m, json.load(open('/root/.vp/MANIFEST.schema.json')))
es = json.load(open('/root/.vp/EVIDENCE.schema.json'))
for c in m['checks']:
    try:
        ev = json.load(open(c['evidence_file']))
        jsonschema.validate(ev, es)
        print('ok', c['property_id'], ev['coverage'].get('obligations'), ev['violations'])
    except Exception as e:
        print('BAD', c['property_id'], str(e)[:300])
print('manifest ok; checks:', [c['property_id'] for c in m['checks']], 'n/a:', [c['property_id'] for c in m.get('not_applicable',[])])
