"""Developer helper for seeded changes (not part of any registered check).

  tools_seeded.py confirm <srcdir> <seed-id> <property>   verify a sub-agent's change and import it as /verif/seeded/<seed-id>/
  tools_seeded.py run [<seed-id> ...]                      run every claimed check against each seeded change (scratch copy)

confirm: in a scratch copy of /repo (outside /repo and /verif, removed afterwards) checks that the patch applies,
the unedited test suite still gives the baseline result, and demo.py passes without and fails with the change.
"""
import json
import os
import shutil
import subprocess
import sys
import tempfile

VERIF = os.path.dirname(os.path.abspath(__file__))
PY = "/venv/bin/python"
SUITE = [PY, "-m", "pytest", "-q", "-p", "no:cacheprovider", "--timeout=900", "--continue-on-collection-errors"]


def scratch_repo():
    root = tempfile.mkdtemp(prefix="seeded_")
    subprocess.run(["git", "-C", "/repo", "worktree", "add", "-q", "--detach", os.path.join(root, "wt"), "HEAD"], check=True)
    return root, os.path.join(root, "wt")


def drop(root, wt):
    subprocess.run(["git", "-C", "/repo", "worktree", "remove", "--force", wt], check=False)
    shutil.rmtree(root, ignore_errors=True)


def suite_summary(wt):
    p = subprocess.run(SUITE, cwd=wt, capture_output=True, text=True)
    lines = [l for l in p.stdout.splitlines() if " passed" in l or " failed" in l]
    return lines[-1] if lines else p.stdout[-300:]


def run_demo(wt, demo):
    env = dict(os.environ, PYTHONPATH=wt, STATHAM_ROOT=wt)
    p = subprocess.run([PY, demo], cwd=wt, capture_output=True, text=True, env=env, timeout=600)
    return p.returncode, (p.stdout + p.stderr)[-600:]


def confirm(src, seed_id, prop):
    patch = os.path.join(src, "patch.diff")
    demo = os.path.join(src, "demo.py")
    root, wt = scratch_repo()
    try:
        rc0, out0 = run_demo(wt, demo)
        base = suite_summary(wt)
        ap = subprocess.run(["git", "-C", wt, "apply", patch], capture_output=True, text=True)
        if ap.returncode != 0:
            print("patch does not apply:", ap.stderr)
            return 1
        rc1, out1 = run_demo(wt, demo)
        mut = suite_summary(wt)
        ok = rc0 == 0 and rc1 != 0 and "1008 passed" in base and "1008 passed" in mut and " failed" not in mut
        print(f"{seed_id}: demo clean rc={rc0}, demo with change rc={rc1}; suite clean: {base.strip()}; with change: {mut.strip()} -> {'CONFIRMED' if ok else 'REJECTED'}")
        if not ok:
            print(out0[-300:], "\n---\n", out1[-300:])
            return 1
        dst = os.path.join(VERIF, "seeded", seed_id)
        os.makedirs(dst, exist_ok=True)
        shutil.copy(patch, os.path.join(dst, "patch.diff"))
        shutil.copy(demo, os.path.join(dst, "demo.py"))
        notes = ""
        if os.path.exists(os.path.join(src, "notes.md")):
            notes = open(os.path.join(src, "notes.md")).read()
            shutil.copy(os.path.join(src, "notes.md"), os.path.join(dst, "notes.md"))
        head = subprocess.run(["git", "-C", "/repo", "rev-parse", "--short", "HEAD"], capture_output=True, text=True).stdout.strip()
        meta = {
            "id": seed_id,
            "breaks_property": prop,
            "origin": "independent sub-agent given only the property text and a scratch worktree",
            "needs_to_manifest": first_para(notes),
            "confirmed": {
                "repo_head": head,
                "suite_without_change": base.strip(),
                "suite_with_change": mut.strip(),
                "demo_without_change_rc": rc0,
                "demo_with_change_rc": rc1,
                "demo_with_change_output_tail": out1[-300:],
                "commands": [
                    "git -C /repo worktree add --detach <scratch> HEAD",
                    "cd <scratch> && PYTHONPATH=<scratch> /venv/bin/python demo.py   (clean, then with `git apply patch.diff`)",
                    "cd <scratch> && " + " ".join(SUITE),
                    "git -C /repo worktree remove --force <scratch>",
                ],
            },
            "detected_by": None,
        }
        with open(os.path.join(dst, "meta.json"), "w") as fh:
            json.dump(meta, fh, indent=1)
        return 0
    finally:
        drop(root, wt)


def first_para(notes):
    return " ".join(notes.strip().split("\n")[:12])[:1200]


def run_one(sid):
    claimed = json.load(open(os.path.join(VERIF, "claimed.json")))
    d = os.path.join(VERIF, "seeded", sid)
    if not os.path.exists(os.path.join(d, "patch.diff")):
        return sid, None
    root = tempfile.mkdtemp(prefix="seedrun_")
    try:
        shutil.copytree("/repo/statham", os.path.join(root, "statham"), ignore=shutil.ignore_patterns("__pycache__"))
        ap = subprocess.run(["patch", "-p1", "-s", "-f", "-d", root, "-i", os.path.join(d, "patch.diff")], capture_output=True, text=True)
        if ap.returncode != 0:
            return sid, {"error": "patch does not apply to current /repo: " + ap.stdout[-200:]}
        meta = json.load(open(os.path.join(d, "meta.json")))
        fired = {}
        for pid in claimed:
            p = subprocess.run([os.path.join(VERIF, "check"), pid, "--repo", root, "--no-evidence"], capture_output=True, text=True)
            if p.returncode == 1:
                viol = [l.strip() for l in p.stdout.splitlines() if l.startswith("  ") and "::" in l and not l.startswith("      ")]
                fired[pid] = viol[:4]
            elif p.returncode == 2:
                errs = [l for l in p.stdout.splitlines() if l.startswith("ANALYSIS-ERROR")]
                fired[pid] = ["ANALYSIS-ERROR " + (errs[0] if errs else p.stdout.strip().splitlines()[0])[:200]]
        own = meta["breaks_property"]
        res = {"property": own, "own_check": "fires" if (own in fired and not fired[own][0].startswith("ANALYSIS")) else (
            "not-claimed" if own not in claimed else ("analysis-error" if own in fired else "MISSED")), "fired": fired}
        meta["detected_by"] = fired
        with open(os.path.join(d, "meta.json"), "w") as fh:
            json.dump(meta, fh, indent=1)
        return sid, res
    finally:
        shutil.rmtree(root, ignore_errors=True)


def run(ids):
    from concurrent.futures import ThreadPoolExecutor
    base = os.path.join(VERIF, "seeded")
    ids = ids or sorted(x for x in os.listdir(base) if os.path.isdir(os.path.join(base, x)))
    with ThreadPoolExecutor(14) as ex:
        for sid, s in ex.map(run_one, ids):
            if s is None:
                continue
            print(sid, s.get("property"), s.get("own_check"), {k: v[:2] for k, v in s.get("fired", {}).items()}, s.get("error", ""), flush=True)
    return 0


def index():
    base = os.path.join(VERIF, "seeded")
    rows = []
    for sid in sorted(x for x in os.listdir(base) if os.path.isdir(os.path.join(base, x))):
        m = json.load(open(os.path.join(base, sid, "meta.json")))
        own = m["breaks_property"]
        det = m.get("detected_by") or {}
        own_rules = sorted({l.split()[0] for l in det.get(own, []) if not l.startswith("ANALYSIS")})
        others = sorted(k for k, v in det.items() if k != own and v and not v[0].startswith("ANALYSIS"))
        notes = ""
        np_ = os.path.join(base, sid, "notes.md")
        if os.path.exists(np_):
            for line in open(np_):
                line = line.strip().lstrip("#").strip()
                if line:
                    notes = line
                    break
        rows.append((sid, own, notes[:140].replace("|", "/"), ",".join(own_rules) or "**missed**", ",".join(others)))
    with open(os.path.join(base, "INDEX.md"), "w") as fh:
        fh.write("# Seeded changes (independent sub-agents; each confirmed: suite still green, demo fails with / passes without)\n\n")
        fh.write("| id | breaks | change (first line of the author's notes) | own check: rules firing | other checks firing |\n|---|---|---|---|---|\n")
        for r in rows:
            fh.write("| " + " | ".join(r) + " |\n")
        missed = [r[0] for r in rows if r[3] == "**missed**"]
        fh.write(f"\n{len(rows)} changes; {len(rows) - len(missed)} reported by the property's own quick check; missed: {', '.join(missed) or '-'}.\n")
    print(len(rows), "rows")


if __name__ == "__main__":
    if sys.argv[1] == "confirm":
        sys.exit(confirm(sys.argv[2], sys.argv[3], sys.argv[4]))
    elif sys.argv[1] == "run":
        sys.exit(run(sys.argv[2:]))
    elif sys.argv[1] == "index":
        index()
