"""Positive controls: one instance of each zero-expected violation class.

The checkers analyse this tiny package on every run and must report each
`*_bad` function and stay silent on each `*_ok` twin; otherwise the run fails
as an analysis error (a rule that matches nothing would pass forever).
This file is never imported or executed.
"""
import os
import random
import time

_CACHE = {}


class Node:
    def __init__(self, children):
        self.children = children
        self.required = []

    def __call__(self, value):
        return p1_bad(self, value)


def p1_bad(node, value):
    node.required.append(value)      # write to a parameter-owned object
    _CACHE[id(node)] = value         # write to a module-level object
    return value


def p1_ok(node, value):
    seen = list(node.required)
    seen.append(value)               # fresh copy: fine
    return seen


def d1_bad(items):
    out = []
    for key in set(items):           # iteration order depends on the hash seed
        out.append(key)
    return out


def d1_bad_join(items):
    return ", ".join({str(i) for i in items})


def d1_ok(items):
    names = [str(i) for i in set(items)]
    if not names:
        return ""
    return ", ".join(sorted(names))


def d2_bad(obj):
    return f"{id(obj)}-{hash(obj)}-{time.time()}-{random.random()}-{os.getpid()}-{sorted(os.listdir('.'))}"


def d2_ok(obj, seen):
    if id(obj) in seen:
        return True
    seen.add(id(obj))
    return False


def x1_bad(value, table):
    return float(value) / table["k"]   # OverflowError / ZeroDivisionError / KeyError can escape


def x1_ok(value, table):
    try:
        return float(value) / table["k"]
    except (OverflowError, ZeroDivisionError, KeyError, ValueError):
        return None


class Schema:
    def __init__(self, default, const):
        self.default = default
        self.const = const


def k3_bad(schema, other):
    return schema.default or other.default       # a falsy default (0, "", False) is lost


def k3_ok(schema, other, NotPassed):
    if isinstance(schema.default, NotPassed):
        return other.default
    return schema.default


def k5_bad(cls):
    return f'class {cls.__name__}:\n    """{cls.description}"""\n'   # raw schema text spliced into source


def k5_ok(cls):
    return f"class {cls.__name__}:\n    {repr(cls.description)}\n"
