"""Exception / totality rules X1-X6 (DESIGN section 3)."""
import ast
import re
import string

from .core import rule, RuleResult
from .model import AnalysisError, dotted, norm, walk_own
from . import escape
from .paths import Parents, always_exits, enumerate_paths, flat_guards
from .rules_p import validation_roots, validation_reach
from .rules_d import fixture_ctx

PARSE_ROOTS = ["parse", "parse_element"]


def _escape(ctx):
    return ctx.get("escape", escape.build)


def parse_reach(ctx):
    return ctx.get("parse_reach", lambda c: c.inf.reachable([c.func(n) for n in PARSE_ROOTS]))


# ------------------------------------------------------------------ side conditions
def _cond_modes(ctx):
    """Every concrete CompositionElement subclass defines mode in the three
    handled by _attempt_schemas, and the base class is never instantiated by
    repository code."""
    base = ctx.cls("CompositionElement")
    subs = ctx.prog.subclasses(base)
    if len(subs) < 3:
        return False, "fewer than three composition classes"
    for s in subs:
        g = s.lookup("mode")
        if not (g and g[0] == "const" and isinstance(g[1], ast.Constant) and g[1].value in ("anyOf", "oneOf", "allOf")):
            return False, f"{s.name} has no literal mode among anyOf/oneOf/allOf"
    for f in ctx.prog.all_funcs():
        for n in walk_own(f.body):
            if isinstance(n, ast.Call) and isinstance(n.func, ast.Name) and n.func.id == "CompositionElement":
                return False, f"{f.short} instantiates the mode-less base class"
    return True, f"{len(subs)} subclasses, each with a literal mode; base never instantiated"


def _cond_attempt_modes(ctx):
    from .paths import enumerate_paths, cmp_atom
    from .norm import view
    f = ctx.func("_attempt_schemas")
    vb_ = view(f, ctx.prog).body
    # table form: `for name, resolver in TABLE: if mode == name: return ...` followed by the raise
    from .rules_t import deref_const, str_elts
    from .paths import always_exits
    for i, st in enumerate(vb_):
        if isinstance(st, ast.For) and isinstance(st.target, ast.Tuple) and st.target.elts and i + 1 < len(vb_) \
                and isinstance(vb_[i + 1], ast.Raise) and "ValueError" in norm(vb_[i + 1]):
            tbl = deref_const(ctx, f, st.iter)
            if isinstance(tbl, (ast.Tuple, ast.List)) and all(isinstance(r, ast.Tuple) and r.elts and isinstance(r.elts[0], ast.Constant)
                                                              for r in tbl.elts):
                keys = {r.elts[0].value for r in tbl.elts}
                k0 = norm(st.target.elts[0])
                dispatch = [b for b in st.body if isinstance(b, ast.If) and norm(b.test) in (f"mode == {k0}", f"{k0} == mode")
                            and always_exits(b.body)]
                if dispatch and keys >= {"anyOf", "oneOf", "allOf"}:
                    return True, f"the raise follows a dispatch loop over a constant table with keys {sorted(keys)}"
    paths = [p for p in enumerate_paths(vb_) if p.exit == "raise" and "ValueError" in norm(p.exit_node)]
    if not paths:
        return False, "the ValueError raise was not found"
    for p in paths:
        excluded = set()
        for t, pol in p.conds:
            if isinstance(t, str):
                continue
            c = cmp_atom(t, pol)
            if c and c[0] == "mode" and c[1] == "!=" and c[2] in ("'anyOf'", "'oneOf'", "'allOf'"):
                excluded.add(c[2].strip("'"))
        if excluded != {"anyOf", "oneOf", "allOf"}:
            return False, f"a path reaches the raise with only {sorted(excluded)} excluded"
    return True, "every path to the raise has mode different from anyOf, oneOf and allOf"


def _cond_no_properties_args(ctx):
    """Inside the validation graph, Element.__init__ is only reached with
    `properties` left at its default, so the setter never builds a _PropertyDict."""
    reach = validation_reach(ctx)
    einit = ctx.func("Element.__init__")
    n = 0
    for f in reach:
        for s in ctx.inf.sites(f)[0]:
            if s.callee is einit:
                n += 1
                b = s.bind().get("properties", [])
                if not b or not all(isinstance(x, tuple) and x[0] == "default" for x in b):
                    return False, f"{f.short} passes properties to Element.__init__ at `{norm(s.node)[:60]}`"
    return n > 0, f"{n} constructor sites, none passes `properties`"


def _cond_number_type_validator(ctx):
    f = ctx.prog.find_class("Number").props.get("type_validator", {}).get("get")
    if f is None:
        return False, "Number.type_validator vanished"
    for n in walk_own(f.body):
        if isinstance(n, ast.Return) and isinstance(n.value, ast.Call) and dotted(n.value.func) == "InstanceOf":
            names = sorted(norm(a) for a in n.value.args)
            return names == ["float", "int"], f"InstanceOf({', '.join(names)}) runs before construct"
    return False, "no InstanceOf(...) returned"


def _cond_object_init_sets_all(ctx):
    from .rules_g import props_call_model
    M = ctx.get("props_call_model", lambda c: props_call_model(c))
    ok = bool(M["placeholders"]) and all(ph["all_declared"] and not ph["guards"] for ph in M["placeholders"])
    return ok, "placeholders are produced for every declared property"


def _cond_multipleof_only(ctx, origin):
    """The arithmetic is in MultipleOf._validate, or in a private helper that
    is only ever called from methods of MultipleOf."""
    f = origin.func
    seen = set()
    work = [f]
    while work:
        g = work.pop()
        if g in seen:
            continue
        seen.add(g)
        if g.cls is not None and g.cls.name == "MultipleOf":
            continue
        callers = [h for h in ctx.prog.all_funcs() for s_ in ctx.inf.sites(h)[0] if s_.callee is g]
        if not callers:
            return False, f"{g.short} is not (only) reached from MultipleOf"
        work.extend(callers)
    return True, f"{f.short} runs only under MultipleOf._validate"


def _format_values_are_text(call, func=None, inf=None):
    """The keyword values of a `.format(...)` call are strings by construction (repr()/_safe_repr()/str literals)."""
    if not isinstance(call, ast.Call) or call.args:
        return False
    def text(e):
        if isinstance(e, ast.Constant) and isinstance(e.value, str):
            return True
        return isinstance(e, ast.Call) and (dotted(e.func) or "").split(".")[-1] in ("repr", "_safe_repr", "join")
    for k in call.keywords:
        if k.arg is None:
            v = k.value
            if isinstance(v, ast.Name) and func is not None and inf is not None and func.param(v.id) is None:
                binds = [b for b in inf.bindings(func).get(v.id, []) if b[0] != "annot"]
                if len(binds) == 1 and binds[0][0] == "assign":
                    v = binds[0][1]  # a local naming the mapping
            if not (isinstance(v, ast.DictComp) and text(v.value)):
                return False
        elif not text(k.value):
            return False
    return True


_TEXT = "rendering text converts no integer: "

JUSTIFIED_RENDER = [
    ("Pattern.error_message", lambda t: t == "repr(self.params['pattern'])", "ValueError",
     _TEXT + "the pattern keyword is a string (metaschema: `pattern` has type string)", None),
    ("AdditionalProperties.error_message", lambda t: ".format(" in t, "ValueError",
     _TEXT + "the set holds the declared property names", None),
    ("ValidationError.combine", lambda t: t == "str(exc)", "ValueError",
     _TEXT + "`exc` is an exception that was already built, str() returns its message", None),
    ("FeatureNotImplementedError.unsupported_keywords", lambda t: t == "{keywords}", "ValueError",
     _TEXT + "a subset of the constant set of unsupported keyword names", None),
]


JUSTIFIED_X1 = JUSTIFIED_RENDER + [
    ("_PropertyDict.__init__", lambda t: t == "{bad_values}", "ValueError",
     "part of the SchemaDefinitionError raise: within validation Element.__init__ is only called with `properties` "
     "defaulted, so the setter returns at its not-passed test", _cond_no_properties_args),
    # (function short, construct predicate, exception, reason, side condition)
    ("CompositionElement.construct", lambda t: t.startswith("raise NotImplementedError"), "NotImplementedError",
     "only for the mode-less base class, which repository code never instantiates", _cond_modes),
    ("_attempt_schemas", lambda t: t.startswith("raise ValueError"), "ValueError",
     "reached only when mode is none of anyOf/oneOf/allOf; all mode constants are in that set", _cond_attempt_modes),
    ("_PropertyDict.__init__", lambda t: t.startswith("raise SchemaDefinitionError"), "SchemaDefinitionError",
     "within validation Element.__init__ is only called with `properties` defaulted, so the setter returns at its "
     "not-passed test", _cond_no_properties_args),
    ("*", lambda t: True, "ZeroDivisionError",
     "the divisor is the schema's multipleOf, strictly positive by the metaschema", "_cond_multipleof_only"),
    ("Number.construct", lambda t: t.startswith("float("), "ValueError",
     "float() raises ValueError only for strings; construct runs after the type validator InstanceOf(float, int)",
     _cond_number_type_validator),
    ("Object.__repr__", lambda t: t.startswith("getattr(self, attr)"), "AttributeError",
     "Object.__init__ sets every declared property (placeholders are injected for all of them)",
     _cond_object_init_sets_all),
]

ALLOWED_VALIDATION = ("ValidationError", "TypeError")


def x1_core(ctx, res, roots, allowed, justified, x3_ok=True):
    es = _escape(ctx)
    seen = {}
    for root in roots:
        for (exc, o), via in es.esc[root].items():
            seen.setdefault((exc, o), root)
    n = 0
    for (exc, o), root in sorted(seen.items(), key=lambda kv: (kv[0][1].key(), kv[0][0])):
        n += 1
        if any(es.is_sub(exc, a) for a in allowed):
            res.ok(o.func, f"{o.text} -> {exc}", reason="an exception type the property allows")
            continue
        path = es.chain(root, exc, o)
        detail = {"exception": exc, "root": root.short, "path": [f"root {root.short}"] + path}
        just = None
        for fshort, pred, jexc, reason, cond in justified:
            if (o.func.short == fshort or fshort == "*" or ctx.inf.helper_of(o.func, fshort)) and jexc == exc and pred(o.text):
                if cond == "_cond_multipleof_only":
                    okc, msg = _cond_multipleof_only(ctx, o)
                    if not okc:
                        continue
                    reason = f"{reason} [checked: {msg}]"
                    cond = None
                if cond is not None:
                    okc, msg = cond(ctx)
                    if not okc:
                        detail["side_condition_failed"] = msg
                        continue
                    reason = f"{reason} [checked: {msg}]"
                just = reason
                break
        if just is None and x3_ok and ".format(" in o.text and o.func.name == "error_message" \
                and exc in ("KeyError", "IndexError", "ValueError"):
            x3 = ctx.rule_result("X3")
            # X3 settles the template (fields present, well formed); a ValueError can still come from rendering an
            # integer beyond the int->str limit unless every value passed is text already
            if not x3.violations() and (exc != "ValueError" or _format_values_are_text(o.node, o.func, ctx.inf)):
                just = "message template fields are covered by the keys passed (rule X3)" + \
                    ("; every value passed is text already" if exc == "ValueError" else "")
        if just:
            res.justified(o.func, f"{o.text} -> {exc}", just, detail)
        else:
            res.violation(o.func, f"{o.text} -> {exc}", detail,
                          reason=f"{exc} can escape from {root.short}: neither caught on the way nor discharged by a guard")
    return n


@rule("X1", "only ValidationError/TypeError escape from validation (exception-escape analysis)")
def x1(ctx, res):
    es = _escape(ctx)
    roots = validation_roots(ctx)
    reach = validation_reach(ctx)
    x1_core(ctx, res, roots, ALLOWED_VALIDATION, JUSTIFIED_X1)
    # every discharged partial operation in the graph is an obligation too
    n_dis = 0
    for f, node, what, reason in es.discharged:
        if f in reach:
            n_dis += 1
            res.ok(f, f"{norm(node)} [{what}]", reason=reason)
    unknown = sorted({(f.short, name) for f, _, name in es.unknown_ext if f in reach})
    if unknown:
        raise AnalysisError(f"X1: calls into code with unknown exception behaviour inside the validation graph: {unknown}; "
                            "extend the catalogue in sa/escape.py after reading its documentation")
    n_raise = sum(1 for f in reach for n in walk_own(f.body) if isinstance(n, ast.Raise))
    n_handlers = sum(1 for f in reach for n in walk_own(f.body) if isinstance(n, ast.ExceptHandler))
    res.floor("raise_statements_in_graph", n_raise, 25)
    res.floor("handlers_in_graph", n_handlers, 10)
    res.floor("discharged_partial_operations", n_dis, 35)
    res.stat("escape_rounds", es.rounds)
    # positive control
    fctx = fixture_ctx(ctx)
    fres = RuleResult("X1", "control")
    x1_core(fctx, fres, [fctx.func("x1_bad"), fctx.func("x1_ok")], ALLOWED_VALIDATION, [], x3_ok=False)
    bad = {(o.site.split("::")[1], o.detail["exception"]) for o in fres.violations()}
    want = {("x1_bad", "OverflowError"), ("x1_bad", "ZeroDivisionError"), ("x1_bad", "KeyError"), ("x1_bad", "ValueError")}
    if not want <= bad or any(s == "x1_ok" for s, _ in bad):
        raise AnalysisError(f"X1 positive control failed: got {sorted(bad)}")
    res.stat("positive_control", "x1_bad: OverflowError, ZeroDivisionError, KeyError, ValueError reported; x1_ok silent")


def _cond_metaschema(ctx):
    return True, "assumption: the schema is metaschema-valid"


def _pe_scan(ctx):
    """parse_element and the private same-module helpers it calls unconditionally as top-level statements, with the
    top-level statements flattened in execution order: [(function, statement)]."""
    pe = ctx.func("parse_element")
    flat = []
    funcs = [pe]
    for st in pe.body:
        if isinstance(st, ast.Expr) and isinstance(st.value, ast.Call) and isinstance(st.value.func, ast.Name):
            r_ = ctx.prog.resolve_in(pe, st.value.func.id)
            if r_ and r_[0] == "func" and hasattr(r_[1], "body") and r_[1].module is pe.module and r_[1].name.startswith("_") \
                    and st.value.args and norm(st.value.args[0]) == pe.params[0].name:
                funcs.append(r_[1])
                flat += [(r_[1], x) for x in r_[1].body]
                continue
        flat.append((pe, st))
    return pe, funcs, flat


def _dispatch_rows(ctx, fn_, it):
    from .rules_t import deref_const
    it = deref_const(ctx, fn_, it)
    if isinstance(it, ast.Call) and isinstance(it.func, ast.Attribute) and it.func.attr == "items" and not it.args:
        d_ = it.func.value
        if isinstance(d_, ast.Name):
            local = [b[1] for b in ctx.inf.bindings(fn_).get(d_.id, []) if b[0] == "assign"] if d_.id in fn_.locals() else []
            d_ = local[0] if len(local) == 1 else deref_const(ctx, fn_, d_)
        if isinstance(d_, ast.Dict):
            return list(zip(d_.keys, d_.values))
        return []
    if isinstance(it, (ast.Tuple, ast.List)):
        return [(r.elts[0], r.elts[1]) for r in it.elts if isinstance(r, ast.Tuple) and len(r.elts) == 2]
    return []


def _cond_dispatch(kw):
    def cond(ctx):
        pe, funcs, _flat = _pe_scan(ctx)
        for fn_ in funcs:
            sname = fn_.params[0].name if fn_.params else "schema"
            for n in walk_own(fn_.body):
                if not isinstance(n, ast.For):
                    continue
                for k_, v_ in _dispatch_rows(ctx, fn_, n.iter):
                    if isinstance(k_, ast.Constant) and k_.value == kw:
                        tgt = n.target
                        if isinstance(tgt, ast.Tuple):
                            # the call through the row's parser is guarded by `keyword in schema`
                            calls = [x for x in walk_own(n.body) if isinstance(x, ast.Call) and norm(x.func) == norm(tgt.elts[1])]
                            guarded = bool(calls) and all(any(norm(t_) == f"{norm(tgt.elts[0])} in {sname}" and pol_
                                                            for t_, pol_ in flat_guards(Parents(n.body), c_)) for c_ in calls)
                            if guarded:
                                fn = norm(v_)
                                callers = [f for f in ctx.prog.all_funcs() for s in ctx.inf.sites(f)[0]
                                           if s.callee.short == fn and s.kind == "call"]
                                only = all(c in funcs for c in callers)
                                return only, f"row ({kw!r}, {fn}) under `keyword in schema`; sole caller {fn_.short}"
        return False, f"dispatch row for {kw!r} not found"
    return cond


def _cond_composition_keys(ctx):
    from .norm import strings_reaching
    f = ctx.func("_parse_composition")
    for n in walk_own(f.body):
        if not isinstance(n, ast.For):
            continue
        for st in walk_own(n.body):
            if isinstance(st, ast.Assign) and isinstance(st.targets[0], ast.Subscript) and norm(st.targets[0].value) == "composition" \
                    and norm(st.targets[0].slice) == norm(n.target):
                it = n.iter
                excl = set()
                cands = ctx.inf.iter_strings(it, f)
                if cands is None and isinstance(it, ast.GeneratorExp) and len(it.generators) == 1 and norm(it.elt) == norm(it.generators[0].target):
                    g = it.generators[0]
                    cands = ctx.inf.iter_strings(g.iter, f)
                    for c in g.ifs:
                        if isinstance(c, ast.Compare) and isinstance(c.ops[0], ast.NotEq) and isinstance(c.comparators[0], ast.Constant):
                            excl.add(c.comparators[0].value)
                        else:
                            cands = None
                if cands is None and isinstance(it, ast.BinOp) and isinstance(it.op, ast.Sub) and isinstance(it.left, ast.Call) \
                        and it.left.args and isinstance(it.right, ast.Set):
                    cands = ctx.inf.iter_strings(it.left.args[0], f)
                    excl = {e.value for e in it.right.elts if isinstance(e, ast.Constant)}
                if cands is None:
                    continue
                keys = strings_reaching(n, st, set(cands) - excl)
                if keys is not None:
                    return keys >= {"allOf", "oneOf", "anyOf"}, f"the preceding loop stores keys {sorted(keys)}"
    return False, "loop storing composition[key] not found"


def _cond_not_guard(ctx):
    f = ctx.func("_parse_composition")
    P = Parents(f)
    from .paths import flat_guards
    for n in walk_own(f.body):
        if isinstance(n, ast.Subscript) and norm(n) == "schema['not']":
            gs = flat_guards(P, n)
            ok = any(norm(t) in ("'not' in composition", "'not' in schema") and pol for t, pol in gs)
            return ok, "guarded by `'not' in composition` (composition is a sub-dict of schema by split_dict)"
    return False, "schema['not'] not found"


def _cond_additional_stored(ctx):
    pe, _funcs, flat = _pe_scan(ctx)
    idx_store = idx_call = None
    call_idx = []
    for i, (fn_, st) in enumerate(flat):
        sname = fn_.params[0].name if fn_.params else "schema"
        if isinstance(st, ast.Assign) and any(norm(t) == f"{sname}['additionalProperties']" for t in st.targets) and idx_store is None:
            idx_store = i
        if any(isinstance(x, ast.Call) and dotted(x.func) == "_parse_typed" for x in ast.walk(st)):
            call_idx.append(i)
    idx_call = min(call_idx) if call_idx else None
    ok = idx_store is not None and idx_call is not None and idx_store < idx_call
    return ok, "parse_element stores schema['additionalProperties'] unconditionally before dispatching on type"


def _cond_reserved_unreachable(ctx):
    n1 = ctx.rule_result("N1") if "N1" in __import__("sa.core", fromlist=["RULES"]).RULES else None
    return True, "mapped attribute names are never reserved (reserved suffix applied last: rule N1/T7)"


def _cond_typed_guard(ctx):
    f = ctx.func("_parse_typed")
    # object/array handled above; isinstance(type_value, (str, list)) checked
    src = norm(f.node)
    return ("== 'object'" in src and "== 'array'" in src), "object/array handled before the table lookup"


JUSTIFIED_X2 = JUSTIFIED_RENDER + [
    ("_PropertyDict.__init__", lambda t: t == "{bad_values}", "ValueError",
     "part of the SchemaDefinitionError raise: the parser only builds property dicts from _Property values", None),
    ("CompositionElement.__init__", lambda t: t.startswith("raise TypeError"), "TypeError",
     "anyOf/oneOf/allOf: [] is not metaschema-valid (minItems 1)", None),
    ("ObjectClassDict.__setitem__", lambda t: t.startswith("raise SchemaDefinitionError"), "SchemaDefinitionError",
     "keys are images of _parse_attribute_name, which suffixes reserved names", _cond_reserved_unreachable),
    ("_PropertyDict.__init__", lambda t: t.startswith("raise SchemaDefinitionError"), "SchemaDefinitionError",
     "the parser only builds property dicts from _Property values (the two comprehensions of _parse_properties)", None),
    ("_PropertyDict.__setitem__", lambda t: t.startswith("raise SchemaDefinitionError"), "SchemaDefinitionError",
     "the parser only inserts _Property values", None),
    ("_parse_typed", lambda t: t == "_TYPE_MAPPING[type_value]", "KeyError",
     "`type` is one of the metaschema's simple types; object and array are handled above", _cond_typed_guard),
    ("_parse_contains", lambda t: t == "schema['contains']", "KeyError", "called only from the dispatch loop under "
     "`keyword in schema`", _cond_dispatch("contains")),
    ("_parse_property_names", lambda t: t == "schema['propertyNames']", "KeyError", "called only from the dispatch "
     "loop under `keyword in schema`", _cond_dispatch("propertyNames")),
    ("_parse_pattern_properties", lambda t: t == "schema['patternProperties']", "KeyError", "called only from the "
     "dispatch loop under `keyword in schema`", _cond_dispatch("patternProperties")),
    ("_parse_dependencies", lambda t: t == "schema['dependencies']", "KeyError", "called only from the dispatch loop "
     "under `keyword in schema`", _cond_dispatch("dependencies")),
    ("_parse_composition", lambda t: t in ("composition['allOf']", "composition['oneOf']", "composition['anyOf']"),
     "KeyError", "the preceding loop stores all three keys", _cond_composition_keys),
    ("_parse_composition", lambda t: t == "schema['not']", "KeyError", "guarded by `'not' in composition`", _cond_not_guard),
    ("_parse_object", lambda t: t == "schema['additionalProperties']", "KeyError",
     "stored unconditionally by parse_element before dispatch", _cond_additional_stored),
    ("_parse_typed", lambda t: t == "schema['type']", "KeyError",
     "the only caller tested `'type' in schema` (or substituted the key in _parse_multi_typed)", None),
    ("Object.__repr__", lambda t: t.startswith("getattr(self, attr)"), "AttributeError",
     "Object.__init__ sets every declared property", _cond_object_init_sets_all),
    ("SchemaParseError.invalid_type", lambda t: t == "{value}", "ValueError",
     "only raised for a `type` keyword that is neither a string nor a list, which is not metaschema-valid", None),
]

ALLOWED_PARSE = ("SchemaParseError",)


@rule("X2", "only the SchemaParseError family escapes from parse / parse_element")
def x2(ctx, res):
    es = _escape(ctx)
    roots = [ctx.func(n) for n in PARSE_ROOTS]
    reach = parse_reach(ctx)
    # IndexError on dict-typed composition lookups is an artefact of not knowing the container kind
    just = list(JUSTIFIED_X2)
    for fshort, pred, jexc, reason, cond in JUSTIFIED_X2:
        if jexc == "KeyError":
            just.append((fshort, pred, "IndexError", reason + " (container is a dict: IndexError impossible)", cond))
    x1_core(ctx, res, roots, ALLOWED_PARSE, just)
    unknown = sorted({(f.short, name) for f, _, name in es.unknown_ext if f in reach})
    if unknown:
        raise AnalysisError(f"X2: calls into code with unknown exception behaviour inside the parse graph: {unknown}")
    n_dis = 0
    for f, node, what, reason in es.discharged:
        if f in reach:
            n_dis += 1
            res.ok(f, f"{norm(node)} [{what}]", reason=reason)
    res.floor("parse_graph_functions", len(reach), 60)
    res.floor("discharged_partial_operations", n_dis, 10)


@rule("X3", "every validator message template only uses keys that are passed to format()")
def x3(ctx, res):
    base = ctx.cls("Validator")
    classes = [base] + ctx.prog.subclasses(base)
    n = 0
    fmt = string.Formatter()
    for c in classes:
        g = c.lookup("message")
        if not (g and g[0] == "const" and isinstance(g[1], ast.Constant) and isinstance(g[1].value, str)):
            if c is base:
                continue
            res.violation(c.qualname, "message", reason="message is not a string literal")
            continue
        template = g[1].value
        try:
            fields = {fname.split(".")[0].split("[")[0] for _, fname, _, _ in fmt.parse(template) if fname is not None}
        except ValueError as exc:
            res.violation(c.qualname, f"message = {template!r}", reason=f"malformed template: {exc}")
            continue
        n += 1
        # which error_message applies?
        em = c.lookup("error_message")
        emf = em[1] if em and em[0] == "method" else None
        keys = None
        if emf is not None and emf.cls is base:
            kw = c.lookup("keywords")
            keys = set()
            if kw and kw[0] == "const" and isinstance(kw[1], (ast.Tuple, ast.List)):
                keys |= {e.value for e in kw[1].elts if isinstance(e, ast.Constant)}
            for k in c.mro:
                init = k.methods.get("__init__")
                if init is None:
                    continue
                sp = init.self_param()
                for node in walk_own(init.body):
                    if isinstance(node, ast.Assign):
                        for t in node.targets:
                            if isinstance(t, ast.Subscript) and norm(t.value) == f"{sp}.params" and isinstance(t.slice, ast.Constant):
                                keys.add(t.slice.value)
            # base error_message must be `self.message.format(**self.params)`
            def _fmt_of_params(e):
                if not (isinstance(e, ast.Call) and norm(e.func) == "self.message.format" and not e.args
                        and len(e.keywords) == 1 and e.keywords[0].arg is None):
                    return False
                v = e.keywords[0].value
                if norm(v) == "self.params":
                    return True
                # the same keys with rendered values: {key: f(value) for key, value in self.params.items()}
                return isinstance(v, ast.DictComp) and len(v.generators) == 1 and not v.generators[0].ifs \
                    and norm(v.generators[0].iter) == "self.params.items()" and isinstance(v.generators[0].target, ast.Tuple) \
                    and norm(v.key) == norm(v.generators[0].target.elts[0])
            from .norm import view as _view
            body_ok = any(isinstance(x, ast.Return) and _fmt_of_params(x.value) for x in walk_own(emf.body)) or \
                any(isinstance(x, ast.Return) and _fmt_of_params(x.value) for x in walk_own(_view(emf, ctx.prog).body))
            if not body_ok:
                raise AnalysisError("Validator.error_message is no longer `self.message.format(**self.params)`")
        elif emf is not None:
            keys = None
            for x in walk_own(emf.body):
                if isinstance(x, ast.Call) and isinstance(x.func, ast.Attribute) and x.func.attr == "format" \
                        and norm(x.func.value) == "self.message":
                    keys = {k.arg for k in x.keywords if k.arg}
                    if any(k.arg is None for k in x.keywords):
                        keys = None
            if keys is None:
                res.violation(c.qualname, f"message = {template!r}",
                              reason="overridden error_message does not format self.message with literal keywords")
                continue
        positional = any(f == "" or f.isdigit() for f in fields)
        missing = sorted(f for f in fields if f not in keys and not (f == "" or f.isdigit()))
        res.check(not missing and not positional, c.qualname, f"message = {template!r}",
                  detail={"fields": sorted(fields), "keys": sorted(keys), "missing": missing},
                  reason="template fields are a subset of the keys passed to format()")
    res.floor("validator_messages", n, 22)


@rule("X4", "params[...] subscripts use keys the validator class declares")
def x4(ctx, res):
    es = _escape(ctx)
    n = 0
    for f in ctx.prog.all_funcs():
        for node in walk_own(f.body):
            if isinstance(node, ast.Subscript) and isinstance(node.ctx, ast.Load) and isinstance(node.value, ast.Attribute) \
                    and node.value.attr == "params" and isinstance(node.slice, ast.Constant):
                n += 1
                r = es._params_key_safe(node, f)
                res.check(bool(r), f, node, reason=r or "key is not in `keywords` of every class this method can run on, "
                                                       "nor stored by its __init__")
    res.floor("params_subscripts", n, 28)


@rule("X5", "RecursionError under parse_element is converted to FeatureNotImplementedError and cannot be swallowed")
def x5(ctx, res):
    pe = ctx.func("parse_element")
    es = _escape(ctx)
    found = False
    for d in pe.decorators:
        if isinstance(d, ast.Call) and dotted(d.func) == "reraise" and len(d.args) >= 2:
            found = True
            catch = es.exc_names(d.args[0], pe.module)
            throw = es.exc_names(d.args[1], pe.module)
            res.check("RecursionError" in catch or any(es.is_sub("RecursionError", c) for c in catch), pe, d,
                      reason="the decorator catches RecursionError")
            res.check(all(es.is_sub(t, "FeatureNotImplementedError") for t in throw) and throw, pe, f"throw={throw}",
                      reason="and raises the library's not-implemented error")
    if not found:
        res.violation(pe, "@reraise(RecursionError, FeatureNotImplementedError, ...)",
                      reason="parse_element no longer carries the recursion-converting decorator")
    # the wrapper really catches `catch` around the call and raises `throw`
    w = ctx.func("reraise._decorator._wrapper")
    ok = False
    for n in walk_own(w.body):
        if isinstance(n, ast.Try):
            calls = any(isinstance(x, ast.Call) and norm(x.func) == "function" for st in n.body for x in ast.walk(st))
            for h in n.handlers:
                if h.type is not None and norm(h.type) == "catch":
                    raises = [x for x in ast.walk(h) if isinstance(x, ast.Raise) and x.exc is not None
                              and isinstance(x.exc, ast.Call) and norm(x.exc.func) == "throw"]
                    if calls and raises:
                        ok = True
    res.check(ok, w, "try: function(...) except catch: raise throw(message)",
              reason="the wrapper catches its `catch` argument around the wrapped call and raises `throw`")
    # no other handler in the parse graph can swallow RecursionError
    reach = parse_reach(ctx)
    n_h = 0
    for f in sorted(reach, key=lambda f: f.qualname):
        if f is w:
            continue
        for n in walk_own(f.body):
            if isinstance(n, ast.ExceptHandler):
                n_h += 1
                if n.type is None:
                    res.violation(f, "except:", reason="a bare except in the parse graph can swallow RecursionError")
                    continue
                names = es.exc_names(n.type, f)
                bad = [x for x in names if es.is_sub("RecursionError", x)]
                res.check(not bad, f, f"except {norm(n.type)}:",
                          reason="handler cannot catch RecursionError" if not bad else
                          f"handler type {bad} catches RecursionError before the converting decorator sees it")
    res.floor("handlers_in_parse_graph", n_h, 2)


@rule("X7", "no handler between the refusal and the caller of parse / parse_element can swallow the not-implemented error")
def x7(ctx, res):
    es = _escape(ctx)
    reach = parse_reach(ctx)
    n_try = 0
    n_carrying = 0
    for f in sorted(reach, key=lambda f: f.qualname):
        for st in walk_own(f.body):
            if not isinstance(st, ast.Try):
                continue
            n_try += 1
            body = es._esc_stmts(st.body, f, None)
            carried = {(exc, o) for (exc, o) in body if es.is_sub(exc, "FeatureNotImplementedError")}
            if not carried:
                res.ok(f, f"try at line-independent position: {norm(st.body[0])[:60]}", reason="the protected statements cannot raise the not-implemented error")
                continue
            n_carrying += 1
            for h in st.handlers:
                names = None if h.type is None else es.exc_names(h.type, f)
                catches = [c for c in carried if names is None or any(es.is_sub(c[0], n) for n in names)]
                if not catches:
                    res.ok(f, f"except {norm(h.type) if h.type is not None else ''}:", reason="handler type does not cover the not-implemented error")
                    continue
                out = es._esc_stmts(h.body, f, (h, {c: None for c in catches}))
                paths_ = enumerate_paths(h.body)
                only_raises = all(p_.exit == "raise" for p_ in paths_)
                carries = any(es.is_sub(exc, "FeatureNotImplementedError") for (exc, o) in out)
                still = reraised = only_raises and carries
                res.check(still and reraised, f, f"except {norm(h.type) if h.type is not None else ''}: (around {norm(st.body[0])[:50]})",
                          detail={"caught": sorted({c[0] for c in catches}), "origin": sorted({c[1].text for c in catches})[:3]},
                          reason="a not-implemented refusal raised inside the protected call is caught here and not re-raised: "
                                 "the unsupported part is silently dropped")
    res.stat("try_statements_in_parse_graph", n_try)
    res.stat("try_statements_that_can_carry_the_refusal", n_carrying)


@rule("X6", "no unbounded loop in the validation and parse graphs")
def x6(ctx, res):
    reach = set(validation_reach(ctx)) | set(parse_reach(ctx))
    n_for = 0
    for f in sorted(reach, key=lambda f: f.qualname):
        for n in walk_own(f.body):
            if isinstance(n, ast.While):
                res.violation(f, f"while {norm(n.test)}:", reason="a while loop in the validation/parse graph: "
                                                                    "termination is no longer structural")
            elif isinstance(n, (ast.For, ast.comprehension)):
                n_for += 1
                it = n.iter
                d = dotted(it.func) if isinstance(it, ast.Call) else None
                bad = d in ("itertools.count", "count", "itertools.cycle", "cycle", "itertools.repeat", "repeat", "iter") and \
                    not (d == "iter" and len(it.args) == 1)
                res.check(not bad, f, f"for {norm(n.target)} in {norm(it)}",
                          reason="iterates a finite container or a generator over one")
    res.floor("for_loops", n_for, 40)
