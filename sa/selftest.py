"""Self-validation of the checkers (thorough tier and development).

Each *mutant* is a small textual edit of the repository source applied to a
scratch copy (mkdtemp outside /repo and /verif, removed immediately); the
named rule must report a violation on it.  Each *twin* is a
behaviour-preserving edit on which the named rules must stay silent.
A mutant whose anchor text no longer exists in the tree under analysis is
skipped (reported as not applicable), never failed.
"""
import os
import shutil
import sys
import tempfile
import time

HERE = os.path.dirname(os.path.abspath(__file__))
VERIF = os.path.dirname(HERE)
if VERIF not in sys.path:
    sys.path.insert(0, VERIF)


def _apply(repo, edits):
    """Copy repo/statham to a scratch root and apply edits; returns root or None."""
    root = tempfile.mkdtemp(prefix="sa_selftest_")
    shutil.copytree(os.path.join(repo, "statham"), os.path.join(root, "statham"),
                    ignore=shutil.ignore_patterns("__pycache__"))
    for rel, old, new in edits:
        path = os.path.join(root, rel)
        with open(path, encoding="utf8") as fh:
            src = fh.read()
        if src.count(old) < 1:
            shutil.rmtree(root, ignore_errors=True)
            return None
        src = src.replace(old, new, 1)
        with open(path, "w", encoding="utf8") as fh:
            fh.write(src)
    return root


def run_case(args):
    """Worker: (kind, case, repo) -> result dict."""
    kind, case, repo = args
    from sa.core import Ctx
    from sa.model import AnalysisError
    from sa import rules_all  # noqa: F401
    t0 = time.time()
    root = _apply(repo, case["edits"])
    out = {"id": case["id"], "kind": kind, "rules": case["rules"], "status": None, "detail": ""}
    if root is None:
        out["status"] = "not-applicable"
        out["detail"] = "anchor text not present in the tree under analysis"
        return out
    try:
        import ast
        for rel, _, _ in case["edits"]:
            with open(os.path.join(root, rel), encoding="utf8") as fh:
                ast.parse(fh.read())
        ctx = Ctx(root)
        fired = {}
        errors = {}
        for rid in case["rules"]:
            try:
                r = ctx.rule_result(rid)
                v = [o for o in r.violations() if (o.rule, o.site, o.construct) not in KNOWN_KEYS()]
                if v:
                    fired[rid] = [f"{o.site.split('::')[-1]} :: {o.construct[:80]}" for o in v[:4]]
            except AnalysisError as exc:
                errors[rid] = str(exc)[:200]
        if kind == "mutant":
            want_site = case.get("expect_site")
            hit = bool(fired)
            if hit and want_site:
                hit = any(want_site in s for lst in fired.values() for s in lst)
            if hit:
                out["status"] = "caught"
                out["detail"] = fired
            elif errors:
                out["status"] = "analysis-error"
                out["detail"] = errors
            else:
                out["status"] = "MISSED"
        else:
            if fired:
                out["status"] = "FALSE-ALARM"
                out["detail"] = fired
            elif errors:
                out["status"] = "analysis-error"
                out["detail"] = errors
            else:
                out["status"] = "silent"
    except SyntaxError as exc:
        out["status"] = "bad-case"
        out["detail"] = f"edit does not parse: {exc}"
    finally:
        shutil.rmtree(root, ignore_errors=True)
    out["wall_s"] = round(time.time() - t0, 2)
    return out


def load_cases():
    sys.path.insert(0, os.path.join(VERIF, "selftest"))
    import cases
    return cases.MUTANTS, cases.TWINS


def KNOWN_KEYS():
    from sa.core import load_known
    global _KK
    try:
        return _KK
    except NameError:
        _KK = {(e.get("rule"), e.get("site"), e.get("construct")) for e in
               load_known(os.path.join(os.path.dirname(os.path.dirname(os.path.abspath(__file__))), "known_findings.json"))
               if e.get("status") == "finding"}
        return _KK


def run(repo, rules=None, jobs=None, ids=None):
    mutants, twins = load_cases()
    work = []
    for kind, lst in (("mutant", mutants), ("twin", twins)):
        for c in lst:
            if rules is not None and not (set(c["rules"]) & set(rules)):
                continue
            if ids and c["id"] not in ids:
                continue
            c = dict(c)
            if rules is not None:
                c["rules"] = [r for r in c["rules"] if r in rules]
            work.append((kind, c, repo))
    if not work:
        return []
    jobs = jobs or min(16, os.cpu_count() or 4, len(work))
    if jobs <= 1:
        return [run_case(w) for w in work]
    import multiprocessing as mp
    with mp.get_context("fork").Pool(jobs) as pool:
        return pool.map(run_case, work, chunksize=1)


if __name__ == "__main__":
    repo = "/repo"
    rules = None
    ids = None
    args = sys.argv[1:]
    while args:
        a = args.pop(0)
        if a == "--repo":
            repo = args.pop(0)
        elif a == "--rules":
            rules = args.pop(0).split(",")
        elif a == "--ids":
            ids = args.pop(0).split(",")
    t0 = time.time()
    results = run(repo, rules, ids=ids)
    bad = 0
    for r in results:
        flag = "" if r["status"] in ("caught", "silent", "not-applicable") else "   <<<<<<"
        if flag:
            bad += 1
        print(f"{r['kind']:6} {r['id']:38} {','.join(r['rules']):14} {r['status']:14} {r.get('wall_s', '')}{flag}")
        if flag:
            print("         ", r["detail"])
    print(f"{len(results)} cases, {bad} not as expected, {time.time() - t0:.1f}s")
    sys.exit(1 if bad else 0)
