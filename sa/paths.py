"""E4 - structured control-flow helpers (the repo has no goto-like flow).

* guards_of(func, node): conditions that must hold for `node` to execute
  (enclosing if-branches plus earlier early-exits in enclosing blocks) - a
  structured form of dominance.
* handlers_of(func, node): except clauses whose try-body encloses `node`.
* enumerate_paths(body): acyclic paths of a small function with branch
  conditions, loops summarised (zero or one iteration), for guard tables.
* atom recognisers and condition normalisation.
"""
import ast

from .model import Func, norm, dotted, walk_own

_BLOCK_FIELDS = ("body", "orelse", "finalbody")


class Parents:
    """Parent links for the own body of a function (not nested scopes)."""

    def __init__(self, func_or_body):
        body = func_or_body.body if isinstance(func_or_body, Func) else func_or_body
        self.parent = {}
        self.field = {}
        self.body = body
        stack = [(None, "body", n) for n in body]
        while stack:
            par, fld, n = stack.pop()
            self.parent[id(n)] = par
            self.field[id(n)] = fld
            if isinstance(n, (ast.FunctionDef, ast.AsyncFunctionDef, ast.Lambda, ast.ClassDef)) and par is not None:
                continue
            for name, value in ast.iter_fields(n):
                if isinstance(value, list):
                    for x in value:
                        if isinstance(x, ast.AST):
                            stack.append((n, name, x))
                elif isinstance(value, ast.AST):
                    stack.append((n, name, value))

    def chain(self, node):
        """[(ancestor, field-in-which-child-sits, child)] from node upward."""
        out = []
        cur = node
        while True:
            par = self.parent.get(id(cur))
            out.append((par, self.field.get(id(cur)), cur))
            if par is None:
                break
            cur = par
        return out

    def enclosing_stmt(self, node):
        cur = node
        while cur is not None and not isinstance(cur, ast.stmt):
            cur = self.parent.get(id(cur))
        return cur


def always_exits(stmts):
    """True if the statement list cannot fall through (ends in return /
    raise / continue / break on every path)."""
    if not stmts:
        return False
    last = stmts[-1]
    if isinstance(last, (ast.Return, ast.Raise, ast.Continue, ast.Break)):
        return True
    if isinstance(last, ast.If):
        return always_exits(last.body) and always_exits(last.orelse)
    if isinstance(last, ast.Try):
        body_exits = always_exits(last.body) or (last.orelse and always_exits(last.orelse))
        handlers_exit = all(always_exits(h.body) for h in last.handlers)
        if last.finalbody and always_exits(last.finalbody):
            return True
        return bool(body_exits and handlers_exit)
    if isinstance(last, ast.With):
        return always_exits(last.body)
    return False


def exit_kind(stmts):
    """For an always-exiting block, the set of exit kinds."""
    kinds = set()
    if not stmts:
        return kinds
    last = stmts[-1]
    if isinstance(last, ast.Return):
        kinds.add("return")
    elif isinstance(last, ast.Raise):
        kinds.add("raise")
    elif isinstance(last, ast.Continue):
        kinds.add("continue")
    elif isinstance(last, ast.Break):
        kinds.add("break")
    elif isinstance(last, ast.If):
        kinds |= exit_kind(last.body) | exit_kind(last.orelse)
    elif isinstance(last, ast.Try):
        kinds |= exit_kind(last.body)
        for h in last.handlers:
            kinds |= exit_kind(h.body)
    elif isinstance(last, ast.With):
        kinds |= exit_kind(last.body)
    return kinds


def guards_of(func_or_parents, node, stop_at_loop=False):
    """List of (test_expr, polarity) that hold whenever `node` executes."""
    P = func_or_parents if isinstance(func_or_parents, Parents) else Parents(func_or_parents)
    out = []
    for par, fld, child in P.chain(node):
        # siblings before `child` in the same block
        block = None
        if par is None:
            block = P.body
        elif fld in _BLOCK_FIELDS and isinstance(getattr(par, fld, None), list):
            block = getattr(par, fld)
        elif isinstance(par, ast.ExceptHandler) and fld == "body":
            block = par.body
        if block is not None and child in block:
            idx = block.index(child)
            for prev in block[:idx]:
                if isinstance(prev, ast.If) and always_exits(prev.body) and not prev.orelse:
                    kinds = exit_kind(prev.body)
                    out.append((prev.test, False, kinds))
                elif isinstance(prev, ast.If) and prev.orelse and always_exits(prev.orelse) and not always_exits(prev.body):
                    out.append((prev.test, True, exit_kind(prev.orelse)))
                elif isinstance(prev, ast.Assert):
                    out.append((prev.test, True, {"raise"}))
        if isinstance(par, ast.If):
            if fld == "body":
                out.append((par.test, True, set()))
            elif fld == "orelse":
                out.append((par.test, False, set()))
        elif isinstance(par, ast.IfExp):
            if fld == "body":
                out.append((par.test, True, set()))
            elif fld == "orelse":
                out.append((par.test, False, set()))
        elif isinstance(par, ast.While) and fld == "body":
            out.append((par.test, True, set()))
        elif isinstance(par, ast.BoolOp):
            # short circuit: in `a and b`, b runs only if a is truthy
            idx = par.values.index(child) if child in par.values else 0
            for prev in par.values[:idx]:
                out.append((prev, isinstance(par.op, ast.And), set()))
        elif isinstance(par, (ast.ListComp, ast.SetComp, ast.GeneratorExp, ast.DictComp)):
            if fld in ("elt", "key", "value"):
                for gen in par.generators:
                    for cond in gen.ifs:
                        out.append((cond, True, set()))
        elif isinstance(par, ast.comprehension) and fld == "ifs":
            idx = par.ifs.index(child)
            for prev in par.ifs[:idx]:
                out.append((prev, True, set()))
        if stop_at_loop and isinstance(par, (ast.For, ast.While)):
            break
    return [(t, pol) for t, pol, _ in out]


def handlers_of(func_or_parents, node):
    """Except-handler type expressions guarding `node` (innermost first).
    Each entry: (handler ast.ExceptHandler, try node)."""
    P = func_or_parents if isinstance(func_or_parents, Parents) else Parents(func_or_parents)
    out = []
    for par, fld, child in P.chain(node):
        if isinstance(par, ast.Try) and fld == "body":
            for h in par.handlers:
                out.append((h, par))
    return out


def in_handler(func_or_parents, node):
    """The ExceptHandler whose body contains node, or None."""
    P = func_or_parents if isinstance(func_or_parents, Parents) else Parents(func_or_parents)
    for par, fld, child in P.chain(node):
        if isinstance(child, ast.ExceptHandler):
            return child
    return None


# ---------------------------------------------------------------- conditions

def strip_not(test, pol=True):
    while isinstance(test, ast.UnaryOp) and isinstance(test.op, ast.Not):
        test = test.operand
        pol = not pol
    return test, pol


def boolify(test):
    """In a truth-value context a conditional expression with a constant arm is
    a boolean operation: `True if a else x` = `a or x`, `x if a else False` = `a and x`,
    `False if a else x` = `not a and x`, `x if a else True` = `not a or x`."""
    if isinstance(test, ast.IfExp):
        def const(e):
            return e.value if isinstance(e, ast.Constant) and isinstance(e.value, bool) else None
        neg = ast.UnaryOp(op=ast.Not(), operand=test.test)
        if const(test.body) is True:
            return ast.BoolOp(op=ast.Or(), values=[test.test, boolify(test.orelse)])
        if const(test.body) is False:
            return ast.BoolOp(op=ast.And(), values=[neg, boolify(test.orelse)])
        if const(test.orelse) is False:
            return ast.BoolOp(op=ast.And(), values=[test.test, boolify(test.body)])
        if const(test.orelse) is True:
            return ast.BoolOp(op=ast.Or(), values=[neg, boolify(test.body)])
    return test


def flatten_guard(test, pol):
    """Split a guard into atomic (expr, polarity) conjuncts when possible:
    (a and b) true -> a true, b true;  (a or b) false -> a false, b false."""
    test, pol = strip_not(test, pol)
    test = boolify(test)
    if isinstance(test, ast.BoolOp):
        if isinstance(test.op, ast.And) and pol:
            out = []
            for v in test.values:
                out += flatten_guard(v, True)
            return out
        if isinstance(test.op, ast.Or) and not pol:
            out = []
            for v in test.values:
                out += flatten_guard(v, False)
            return out
    return [(test, pol)]


def flat_guards(func_or_parents, node):
    out = []
    for t, pol in guards_of(func_or_parents, node):
        out += flatten_guard(t, pol)
    return out


def is_notpassed_call(e):
    return isinstance(e, ast.Call) and dotted(e.func) == "NotPassed" and not e.args and not e.keywords


def np_atom(test, pol=True):
    """Recognise `x is NotPassed` idioms.  Returns (subject_text, polarity
    meaning 'subject IS the not-passed marker') or None."""
    test, pol = strip_not(test, pol)
    if isinstance(test, ast.Call) and dotted(test.func) == "isinstance" and len(test.args) == 2:
        t = test.args[1]
        names = [dotted(x) for x in (t.elts if isinstance(t, ast.Tuple) else [t])]
        if names == ["NotPassed"]:
            return subject_text(test.args[0]), pol
    if isinstance(test, ast.Compare) and len(test.ops) == 1:
        op = test.ops[0]
        l, r = test.left, test.comparators[0]
        if is_notpassed_call(r) or is_notpassed_call(l):
            subj = l if is_notpassed_call(r) else r
            if isinstance(op, (ast.Is, ast.Eq)):
                return subject_text(subj), pol
            if isinstance(op, (ast.IsNot, ast.NotEq)):
                return subject_text(subj), not pol
    return None


def subject_text(e):
    """Normalise `getattr(o, "a", NotPassed())` to `o.a`."""
    if isinstance(e, ast.Call) and dotted(e.func) == "getattr" and len(e.args) >= 2 \
            and isinstance(e.args[1], ast.Constant) and isinstance(e.args[1].value, str):
        return f"{norm(e.args[0])}.{e.args[1].value}"
    return norm(e)


def isinstance_atom(test, pol=True):
    """(subject_text, [type names], polarity) for isinstance / _is_instance /
    type(x) is T tests."""
    test, pol = strip_not(test, pol)
    if isinstance(test, ast.Call) and dotted(test.func) in ("isinstance", "_is_instance") and len(test.args) == 2:
        t = test.args[1]
        names = [norm(x) for x in (t.elts if isinstance(t, ast.Tuple) else [t])]
        return norm(test.args[0]), names, pol
    if isinstance(test, ast.Compare) and len(test.ops) == 1 and isinstance(test.ops[0], (ast.Is, ast.IsNot, ast.Eq, ast.NotEq)):
        l, r = test.left, test.comparators[0]
        if isinstance(l, ast.Call) and dotted(l.func) == "type" and len(l.args) == 1:
            p = pol if isinstance(test.ops[0], (ast.Is, ast.Eq)) else not pol
            return norm(l.args[0]), [norm(r)], p
    return None


_SWAP = {ast.Lt: ast.Gt, ast.Gt: ast.Lt, ast.LtE: ast.GtE, ast.GtE: ast.LtE, ast.Eq: ast.Eq, ast.NotEq: ast.NotEq}
_NEG = {ast.Lt: ast.GtE, ast.Gt: ast.LtE, ast.LtE: ast.Gt, ast.GtE: ast.Lt, ast.Eq: ast.NotEq, ast.NotEq: ast.Eq,
        ast.In: ast.NotIn, ast.NotIn: ast.In, ast.Is: ast.IsNot, ast.IsNot: ast.Is}
_SYM = {ast.Lt: "<", ast.Gt: ">", ast.LtE: "<=", ast.GtE: ">=", ast.Eq: "==", ast.NotEq: "!=", ast.In: "in",
        ast.NotIn: "not in", ast.Is: "is", ast.IsNot: "is not"}


def cmp_atom(test, pol=True):
    """Normalise a single comparison to (left_text, op_symbol, right_text)
    with `not` pushed inside.  None if not a simple comparison."""
    test, pol = strip_not(test, pol)
    if not (isinstance(test, ast.Compare) and len(test.ops) == 1):
        return None
    op = type(test.ops[0])
    if not pol:
        op = _NEG.get(op)
        if op is None:
            return None
    return norm(test.left), _SYM[op], norm(test.comparators[0]), test.left, test.comparators[0]


def swap_cmp(sym):
    return {"<": ">", ">": "<", "<=": ">=", ">=": "<=", "==": "==", "!=": "!="}.get(sym)


# ------------------------------------------------------------ path enumeration

class Path:
    __slots__ = ("conds", "stmts", "exit", "exit_node")

    def __init__(self, conds=(), stmts=(), exit=None, exit_node=None):
        self.conds = list(conds)
        self.stmts = list(stmts)
        self.exit = exit  # return | raise | fall | break | continue
        self.exit_node = exit_node

    def extend(self, conds=(), stmts=()):
        return Path(self.conds + list(conds), self.stmts + list(stmts), self.exit, self.exit_node)


def enumerate_paths(stmts, limit=4000):
    """Acyclic paths through a statement list.  Loop bodies are taken zero
    times or once.  try: body path, plus one path per handler (entered from
    the start of the body: statements of the body are not assumed executed).
    Each path: conds [(test, polarity)], stmts executed (simple statements and
    marker tuples), exit kind."""
    paths = _paths(list(stmts), limit)
    return paths


def _paths(stmts, limit):
    done = []
    live = [Path()]
    for st in stmts:
        new_live = []
        for p in live:
            for q in _step(st, limit):
                r = Path(p.conds + q.conds, p.stmts + q.stmts, q.exit, q.exit_node)
                if q.exit in (None, "fall"):
                    r.exit = None
                    new_live.append(r)
                else:
                    done.append(r)
            if len(done) + len(new_live) > limit:
                raise OverflowError("too many paths")
        live = new_live
        if not live:
            break
    for p in live:
        p.exit = "fall"
        done.append(p)
    return done


def _step(st, limit):
    if isinstance(st, ast.Return) and isinstance(st.value, ast.IfExp):
        # `return a if c else b` is two paths
        a = ast.Return(value=st.value.body)
        b = ast.Return(value=st.value.orelse)
        ast.copy_location(a, st)
        ast.copy_location(b, st)
        out = []
        for q in _step(a, limit):
            out.append(Path([(st.value.test, True)] + q.conds, q.stmts, q.exit, q.exit_node))
        for q in _step(b, limit):
            out.append(Path([(st.value.test, False)] + q.conds, q.stmts, q.exit, q.exit_node))
        return out
    if isinstance(st, ast.Return):
        return [Path([], [st], "return", st)]
    if isinstance(st, ast.Raise):
        return [Path([], [st], "raise", st)]
    if isinstance(st, ast.Break):
        return [Path([], [st], "break", st)]
    if isinstance(st, ast.Continue):
        return [Path([], [st], "continue", st)]
    if isinstance(st, ast.If):
        out = []
        for q in _paths(st.body, limit):
            out.append(Path([(st.test, True)] + q.conds, q.stmts, q.exit, q.exit_node))
        for q in _paths(st.orelse, limit):
            out.append(Path([(st.test, False)] + q.conds, q.stmts, q.exit, q.exit_node))
        return out
    if isinstance(st, (ast.For, ast.While)):
        out = [Path([("loop-zero", st)], [("loop-skip", st)], "fall", None)]
        for q in _paths(st.body, limit):
            ex = q.exit
            if ex in ("continue", "break", "fall"):
                ex = "fall"
            out.append(Path([("loop-once", st)] + q.conds, [("loop-enter", st)] + q.stmts, ex, q.exit_node))
        return out
    if isinstance(st, ast.Try):
        out = []
        for q in _paths(st.body + st.orelse, limit):
            out.append(Path(q.conds, [("try", st)] + q.stmts, q.exit, q.exit_node))
        for h in st.handlers:
            for q in _paths(h.body, limit):
                out.append(Path([("except", h)] + q.conds, [("handler", h)] + q.stmts, q.exit, q.exit_node))
        if st.finalbody:
            fin = _paths(st.finalbody, limit)
            out2 = []
            for p in out:
                for q in fin:
                    ex = q.exit if q.exit != "fall" else p.exit
                    out2.append(Path(p.conds + q.conds, p.stmts + q.stmts, ex, q.exit_node or p.exit_node))
            out = out2
        return out
    if isinstance(st, ast.With):
        return [Path(q.conds, [st] + q.stmts, q.exit, q.exit_node) for q in _paths(st.body, limit)]
    return [Path([], [st], "fall", None)]


# ------------------------------------------------------------ decision tables

def eval3(test, atom_eval):
    """Three-valued evaluation of a condition: atom_eval(expr) -> True/False/None."""
    if isinstance(test, ast.UnaryOp) and isinstance(test.op, ast.Not):
        v = eval3(test.operand, atom_eval)
        return None if v is None else (not v)
    if isinstance(test, ast.IfExp):
        c = eval3(test.test, atom_eval)
        if c is not None:
            return eval3(test.body if c else test.orelse, atom_eval)
        a, b = eval3(test.body, atom_eval), eval3(test.orelse, atom_eval)
        return a if a == b else None
    if isinstance(test, ast.Constant) and isinstance(test.value, bool):
        return test.value
    if isinstance(test, ast.BoolOp):
        vals = [eval3(v, atom_eval) for v in test.values]
        if isinstance(test.op, ast.And):
            if any(v is False for v in vals):
                return False
            if all(v is True for v in vals):
                return True
            return None
        if any(v is True for v in vals):
            return True
        if all(v is False for v in vals):
            return False
        return None
    return atom_eval(test)


def decision_table(stmts, atom_names, recognise, classify):
    """For every assignment of the named atoms, the set of exit labels of the
    paths feasible under it.

    recognise(expr) -> (atom_name, polarity) | None  for atomic conditions
    classify(path)  -> hashable label of the path's exit
    Unrecognised atomic conditions are opaque (either way feasible); their
    text is collected in `opaque`."""
    import itertools
    paths = enumerate_paths(stmts)
    opaque = set()
    table = {}
    for values in itertools.product([True, False], repeat=len(atom_names)):
        assign = dict(zip(atom_names, values))

        def atom_eval(e):
            r = recognise(e)
            if r is None:
                opaque.add(norm(e))
                return None
            name, pol = r
            if name not in assign:
                opaque.add(norm(e))
                return None
            return assign[name] if pol else (not assign[name])

        labels = set()
        for p in paths:
            feasible = True
            for c in p.conds:
                if isinstance(c[0], str):
                    continue  # loop / except markers: feasible either way
                v = eval3(c[0], atom_eval)
                if v is None:
                    continue
                if v != c[1]:
                    feasible = False
                    break
            if feasible:
                labels.add(classify(p))
        table[values] = labels
    return table, opaque


def decision_table_eval(stmts, atom_names, evaluate, classify):
    """Like decision_table, but `evaluate(expr, assign) -> True/False/None`
    evaluates an atomic condition directly under an assignment (so that
    derived atoms - `isinstance(x, (str, list))` from STR and LIST - can be
    expressed).  Unevaluable conditions are opaque."""
    import itertools
    paths = enumerate_paths(stmts)
    opaque = set()
    table = {}
    for values in itertools.product([True, False], repeat=len(atom_names)):
        assign = dict(zip(atom_names, values))

        def atom_eval(e):
            r = evaluate(e, assign)
            if r is None:
                opaque.add(norm(e))
            return r
        labels = set()
        for p in paths:
            feasible = True
            for c in p.conds:
                if isinstance(c[0], str):
                    continue
                v = eval3(c[0], atom_eval)
                if v is None:
                    continue
                if v != c[1]:
                    feasible = False
                    break
            if feasible:
                labels.add(classify(p))
        table[values] = labels
    return table, opaque


def resolve_local(expr, func, depth=0):
    """Substitute locals that are bound exactly once by a plain assignment."""
    if depth > 4:
        return expr
    binds = {}
    counts = {}
    for n in walk_own(func.body):
        if isinstance(n, ast.Assign) and len(n.targets) == 1 and isinstance(n.targets[0], ast.Name):
            binds[n.targets[0].id] = n.value
            counts[n.targets[0].id] = counts.get(n.targets[0].id, 0) + 1
        elif isinstance(n, ast.Name) and isinstance(n.ctx, ast.Store):
            counts[n.id] = counts.get(n.id, 0) + 0
        elif isinstance(n, (ast.AugAssign, ast.For, ast.comprehension, ast.With, ast.NamedExpr)):
            for x in ast.walk(n.target if hasattr(n, "target") else n):
                if isinstance(x, ast.Name) and isinstance(x.ctx, ast.Store):
                    counts[x.id] = counts.get(x.id, 0) + 2
    params = {p.name for p in func.params}

    class Sub(ast.NodeTransformer):
        def visit_Name(self, node):
            if isinstance(node.ctx, ast.Load) and node.id in binds and counts.get(node.id) == 1 and node.id not in params:
                import copy
                return resolve_local(copy.deepcopy(binds[node.id]), func, depth + 1)
            return node
    import copy
    return Sub().visit(copy.deepcopy(expr))


def inline_call(expr, func, prog, depth=0):
    """If `expr` is `self.m(args)` / `m(args)` and m's body is a single
    `return E`, return E with parameters substituted (repeat up to 3 levels).
    Helper extraction thereby does not change what a rule sees."""
    import copy
    if depth > 3 or not isinstance(expr, ast.Call):
        return expr
    target = None
    args = list(expr.args)
    if isinstance(expr.func, ast.Attribute) and isinstance(expr.func.value, ast.Name) and func.cls is not None \
            and expr.func.value.id == (func.self_param() or "self"):
        got = func.cls.lookup(expr.func.attr)
        if got and got[0] == "method":
            target = got[1]
            skip = 1
    elif isinstance(expr.func, ast.Name):
        r = prog.resolve_in(func, expr.func.id)
        if r and r[0] == "func" and not r[1].decorators:
            target = r[1]
            skip = 0
    if target is None or target is func:
        return expr
    body = [st for st in target.body if not (isinstance(st, ast.Expr) and isinstance(st.value, ast.Constant))]
    if len(body) != 1 or not isinstance(body[0], ast.Return) or body[0].value is None:
        return expr
    params = [p for p in target.params][skip:]
    if any(isinstance(a, ast.Starred) for a in args) or len(args) > len(params):
        return expr
    mapping = {}
    for p, a in zip(params, args):
        mapping[p.name] = a
    for k in expr.keywords:
        if k.arg is None:
            return expr
        mapping[k.arg] = k.value
    for p in params:
        if p.name not in mapping:
            if p.default is None:
                return expr
            mapping[p.name] = p.default
    if skip:
        mapping[target.params[0].name] = expr.func.value

    class Sub(ast.NodeTransformer):
        def visit_Name(self, node):
            if isinstance(node.ctx, ast.Load) and node.id in mapping:
                return copy.deepcopy(mapping[node.id])
            return node
    new = Sub().visit(copy.deepcopy(body[0].value))
    return inline_call(new, func, prog, depth + 1)


def ret_expr(p, depth=0):
    """The expression a path returns, with a returned local replaced by the
    value last assigned to it on that path (single-exit style)."""
    if p.exit != "return" or p.exit_node is None or p.exit_node.value is None:
        return None
    e = p.exit_node.value
    seen = 0
    while isinstance(e, ast.Name) and seen < 4:
        last = None
        for st in p.stmts:
            if isinstance(st, (ast.Assign, ast.AnnAssign)):
                tgts = st.targets if isinstance(st, ast.Assign) else [st.target]
                if any(isinstance(t, ast.Name) and t.id == e.id for t in tgts) and st.value is not None:
                    last = st.value
        if last is None:
            break
        e = last
        seen += 1
    return e


def resolve_on_path(expr, p, depth=0):
    """`expr` with every local name replaced by the value last assigned to it
    on path `p` (so that `x = f(v); return G(x)` reads `G(f(v))`)."""
    if expr is None or depth > 4:
        return expr
    last = {}
    for st in p.stmts:
        if isinstance(st, (ast.Assign, ast.AnnAssign)) and st.value is not None:
            tgts = st.targets if isinstance(st, ast.Assign) else [st.target]
            for t in tgts:
                if isinstance(t, ast.Name):
                    last[t.id] = st.value
    if not last:
        return expr
    import copy

    class S(ast.NodeTransformer):
        def visit_Name(self, node):
            if isinstance(node.ctx, ast.Load) and node.id in last:
                return resolve_on_path(copy.deepcopy(last[node.id]), p, depth + 1) if depth < 3 else node
            return node

        def visit_Lambda(self, node):
            return node
    out = S().visit(copy.deepcopy(expr))
    ast.fix_missing_locations(out)
    return out
