"""Import every rule module so that the rules register themselves."""
from . import rules_p  # noqa: F401
from . import rules_d  # noqa: F401
from . import rules_x  # noqa: F401
from . import rules_t  # noqa: F401
from . import rules_g  # noqa: F401
from . import rules_k  # noqa: F401
from . import rules_rna  # noqa: F401
