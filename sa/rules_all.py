"""Import every rule module so that the rules register themselves."""
from . import rules_p  # noqa: F401
