"""Thorough tier extras (self-validation of the checkers, dependency lint)."""


def run(pid, spec, ctx, repo):
    return []
