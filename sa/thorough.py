"""Thorough tier: quick tier + self-validation of the rules that decide this
property (seeded mutants must be reported, neutral twins must stay silent),
the independent seeded changes recorded under /verif/seeded for this
property, and a lint of third-party code the property's assumptions rest on.

Runs only when the quick rules found no violation on the tree under analysis
(self-validation against an already violating tree says nothing)."""
import ast
import json
import os
import shutil
import subprocess
import tempfile

from .core import Ctx, RULES, load_known
from .model import AnalysisError

HERE = os.path.dirname(os.path.abspath(__file__))
VERIF = os.path.dirname(HERE)


def _known_keys():
    return {(e.get("rule"), e.get("site"), e.get("construct")) for e in load_known(os.path.join(VERIF, "known_findings.json"))
            if e.get("status") == "finding"}


def _new_violations(ctx, rid):
    """Violations of a rule on a scratch tree, minus the recorded known findings."""
    known = _known_keys()
    return [o for o in ctx.rule_result(rid).violations() if (o.rule, o.site, o.construct) not in known]


def _seeded_case(args):
    sid, d, repo, rules = args
    root = tempfile.mkdtemp(prefix="sa_seeded_")
    try:
        shutil.copytree(os.path.join(repo, "statham"), os.path.join(root, "statham"),
                        ignore=shutil.ignore_patterns("__pycache__"))
        ap = subprocess.run(["patch", "-p1", "-s", "-f", "-d", root, "-i", os.path.join(d, "patch.diff")],
                            capture_output=True, text=True)
        if ap.returncode != 0:
            return {"id": sid, "status": "not-applicable", "detail": "patch does not apply to the tree under analysis"}
        from . import rules_all  # noqa: F401
        ctx = Ctx(root)
        fired = {}
        errors = {}
        for rid in rules:
            try:
                v = _new_violations(ctx, rid)
                if v:
                    fired[rid] = [f"{o.site.split('::')[-1]} :: {o.construct[:70]}" for o in v[:3]]
            except AnalysisError as exc:
                errors[rid] = str(exc)[:160]
        if fired:
            return {"id": sid, "status": "caught", "detail": fired}
        if errors:
            return {"id": sid, "status": "analysis-error", "detail": errors}
        return {"id": sid, "status": "MISSED", "detail": ""}
    finally:
        shutil.rmtree(root, ignore_errors=True)


def _benign_case(args):
    bid, d, repo, rules = args
    root = tempfile.mkdtemp(prefix="sa_benign_")
    try:
        shutil.copytree(os.path.join(repo, "statham"), os.path.join(root, "statham"),
                        ignore=shutil.ignore_patterns("__pycache__"))
        ap = subprocess.run(["patch", "-p1", "-s", "-f", "-d", root, "-i", os.path.join(d, "patch.diff")],
                            capture_output=True, text=True)
        if ap.returncode != 0:
            return {"id": bid, "status": "not-applicable"}
        from . import rules_all  # noqa: F401
        ctx = Ctx(root)
        fired, errors = {}, {}
        for rid in rules:
            try:
                v = _new_violations(ctx, rid)
                if v:
                    fired[rid] = [f"{o.site.split('::')[-1]} :: {o.construct[:60]}" for o in v[:2]]
            except AnalysisError as exc:
                errors[rid] = str(exc)[:160]
        if fired:
            return {"id": bid, "status": "FALSE-ALARM", "detail": fired}
        if errors:
            return {"id": bid, "status": "unrecognised", "detail": errors}
        return {"id": bid, "status": "silent"}
    finally:
        shutil.rmtree(root, ignore_errors=True)


ACCEPTED_MISSES = {}  # none: C06-s1 (title-format round trip) is decided by rule N4 since the regex constants are read statically


def run(pid, spec, ctx, repo):
    from . import selftest
    notes = []
    rules = [r for r in spec["rules"] if r in RULES]
    results = selftest.run(repo, rules=rules)
    counts = {}
    problems = []
    for r in results:
        counts[r["status"]] = counts.get(r["status"], 0) + 1
        if r["status"] in ("MISSED", "FALSE-ALARM", "bad-case"):
            problems.append(f"{r['kind']} {r['id']} ({','.join(r['rules'])}): {r['status']} {r['detail']}")
    notes.append({"self_validation": counts,
                  "cases": [{"id": r["id"], "kind": r["kind"], "rules": r["rules"], "status": r["status"]} for r in results]})
    # independent seeded changes for this property
    base = os.path.join(VERIF, "seeded")
    work = []
    if os.path.isdir(base):
        for sid in sorted(os.listdir(base)):
            d = os.path.join(base, sid)
            mp = os.path.join(d, "meta.json")
            if not os.path.exists(mp):
                continue
            meta = json.load(open(mp))
            if meta.get("breaks_property") == pid:
                work.append((sid, d, repo, rules))
    seeded_results = []
    if work:
        import multiprocessing as mp_
        with mp_.get_context("fork").Pool(min(8, len(work))) as pool:
            seeded_results = pool.map(_seeded_case, work, chunksize=1)
    for r in seeded_results:
        if r["status"] == "MISSED" and r["id"] not in ACCEPTED_MISSES:
            problems.append(f"seeded change {r['id']}: MISSED")
    notes.append({"seeded_changes": [{"id": r["id"], "status": r["status"] + (" (accepted: " + ACCEPTED_MISSES[r["id"]] + ")"
                                      if r["status"] == "MISSED" and r["id"] in ACCEPTED_MISSES else ""),
                                      "rules_firing": sorted(r["detail"]) if isinstance(r["detail"], dict) else []}
                                     for r in seeded_results]})
    # behaviour-preserving refactorings: the property's rules must stay silent on every one
    bbase = os.path.join(VERIF, "benign")
    bwork = []
    if os.path.isdir(bbase):
        for bid in sorted(os.listdir(bbase)):
            d = os.path.join(bbase, bid)
            if os.path.exists(os.path.join(d, "patch.diff")):
                bwork.append((bid, d, repo, list(rules)))
    bres = []
    if bwork:
        import multiprocessing as mp_
        with mp_.get_context("fork").Pool(min(16, len(bwork))) as pool:
            bres = pool.map(_benign_case, bwork, chunksize=1)
    bc = {}
    for r in bres:
        bc[r["status"]] = bc.get(r["status"], 0) + 1
        if r["status"] in ("FALSE-ALARM", "unrecognised"):
            problems.append(f"benign refactoring {r['id']}: {r['status']} {r.get('detail')}")
    notes.append({"benign_refactorings": bc})
    if pid in ("C09", "C10", "C20", "C02"):
        notes.append({"dependency_lint": dependency_lint()})
    if problems:
        raise AnalysisError("self-validation of the rules failed on this tree: " + "; ".join(problems))
    return notes


def dependency_lint():
    """Third-party code the claims rest on (json_ref_dict): a syntactic scan
    for hash-order iteration and broad exception handling.  Reported as an
    assumption note, never as a repository violation."""
    out = {"package": "json_ref_dict", "files": 0, "set_iterations": [], "note": ""}
    try:
        import importlib.util
        spec = importlib.util.find_spec("json_ref_dict")
    except Exception:  # pragma: no cover
        spec = None
    paths = []
    for cand in ("/venv/lib/python3.12/site-packages/json_ref_dict",):
        if os.path.isdir(cand):
            paths.append(cand)
    if not paths:
        out["note"] = "package source not found; materialize() determinism and exception behaviour remain assumptions"
        return out
    for base in paths:
        for fn in sorted(os.listdir(base)):
            if not fn.endswith(".py"):
                continue
            out["files"] += 1
            try:
                tree = ast.parse(open(os.path.join(base, fn), encoding="utf8").read())
            except SyntaxError:
                continue
            for n in ast.walk(tree):
                it = None
                if isinstance(n, (ast.For, ast.comprehension)):
                    it = n.iter
                if it is not None and (isinstance(it, (ast.Set, ast.SetComp)) or (
                        isinstance(it, ast.Call) and isinstance(it.func, ast.Name) and it.func.id in ("set", "frozenset"))):
                    out["set_iterations"].append(f"{fn}:{getattr(n, 'lineno', getattr(it, 'lineno', 0))}")
    out["note"] = ("no iteration over a set found in json_ref_dict" if not out["set_iterations"] else
                   "iteration over sets found in json_ref_dict: materialize() order is an assumption of C09")
    return out
