"""AST pattern matching with metavariables, so that structural rules are not
sensitive to the names of locals.

A pattern is Python source.  Names beginning with `MV_` are metavariables:
they match any expression (or, as an assignment/loop target or argument name,
any name) and must match consistently within one pattern.  `MV__` (double
underscore) is a wildcard that matches anything, unbound.  In a call pattern,
a trailing argument `*MV_rest` matches any remaining positional arguments and
`**MV_kw` any remaining keywords.
"""
import ast

from .model import walk_own, norm, Func

_cache = {}


def _parse(pattern):
    if pattern in _cache:
        return _cache[pattern]
    mod = ast.parse(pattern)
    if len(mod.body) == 1 and isinstance(mod.body[0], ast.Expr):
        node = mod.body[0].value
    elif len(mod.body) == 1:
        node = mod.body[0]
    else:
        node = mod.body
    _cache[pattern] = node
    return node


def is_mv(name):
    return isinstance(name, str) and name.startswith("MV_")


def _same(a, b):
    return ast.dump(a) == ast.dump(b)


def match(pat, node, env=None):
    """Match pattern node against node; returns bindings dict or None."""
    env = dict(env or {})
    return env if _m(pat, node, env) else None


def _bind(name, node, env):
    if name == "MV__":
        return True
    if name in env:
        old = env[name]
        if isinstance(old, str) or isinstance(node, str):
            on = old if isinstance(old, str) else (old.id if isinstance(old, ast.Name) else None)
            nn = node if isinstance(node, str) else (node.id if isinstance(node, ast.Name) else None)
            return on is not None and on == nn
        return _same(_strip_ctx(old), _strip_ctx(node))
    env[name] = node
    return True


def _strip_ctx(n):
    if isinstance(n, ast.AST):
        n2 = ast.parse(ast.unparse(n), mode="eval").body if isinstance(n, ast.expr) else n
        return n2
    return n


def _m(p, n, env):
    if isinstance(p, ast.Name) and is_mv(p.id):
        if not isinstance(n, ast.AST):
            return False
        return _bind(p.id, n, env)
    if isinstance(p, list):
        if not isinstance(n, list):
            return False
        # trailing Starred metavariable absorbs the rest
        if p and isinstance(p[-1], ast.Starred) and isinstance(p[-1].value, ast.Name) and is_mv(p[-1].value.id):
            if len(n) < len(p) - 1:
                return False
            for a, b in zip(p[:-1], n[:len(p) - 1]):
                if not _m(a, b, env):
                    return False
            rest = n[len(p) - 1:]
            if len(rest) == 1 and isinstance(rest[0], ast.Starred):
                return _m(p[-1].value, rest[0].value, env)
            if p[-1].value.id != "MV__" and p[-1].value.id not in env:
                env[p[-1].value.id] = ast.Tuple(elts=list(rest), ctx=ast.Load())
            return True
        if p and isinstance(p[-1], ast.keyword) and p[-1].arg is None and isinstance(p[-1].value, ast.Name) \
                and is_mv(p[-1].value.id):
            want = p[:-1]
            # keywords: order-insensitive subset match
            for kw in want:
                hit = [x for x in n if isinstance(x, ast.keyword) and x.arg == kw.arg]
                if not hit or not _m(kw.value, hit[0].value, env):
                    return False
            return True
        if p and all(isinstance(x, ast.keyword) for x in p) and all(isinstance(x, ast.keyword) for x in n):
            if len(p) != len(n):
                return False
            for kw in p:
                hit = [x for x in n if x.arg == kw.arg]
                if not hit or not _m(kw.value, hit[0].value, env):
                    return False
            return True
        if len(p) != len(n):
            return False
        return all(_m(a, b, env) for a, b in zip(p, n))
    if isinstance(p, ast.AST):
        if isinstance(p, ast.Expr) and isinstance(p.value, ast.Name) and is_mv(p.value.id) and isinstance(n, ast.stmt) \
                and not isinstance(n, ast.Expr):
            return _bind(p.value.id, n, env)  # a metavariable statement matches any statement
        if isinstance(p, ast.Assign) and isinstance(n, ast.AnnAssign) and len(p.targets) == 1 and n.value is not None:
            # an annotated assignment is an assignment
            return _m(p.targets[0], n.target, env) and _m(p.value, n.value, env)
        if type(p) is not type(n):
            return False
        for fld in p._fields:
            if fld in ("ctx", "type_comment", "kind", "lineno", "col_offset", "end_lineno", "end_col_offset"):
                continue
            pv = getattr(p, fld, None)
            nv = getattr(n, fld, None)
            if fld in ("arg", "name", "attr", "id") and is_mv(pv) and isinstance(nv, str) and fld != "attr":
                if not _bind(pv, nv, env):
                    return False
                continue
            if fld == "annotation" or fld == "returns" or fld == "decorator_list":
                continue
            if not _m(pv, nv, env):
                return False
        return True
    return p == n


def find(pattern, scope, env=None):
    """All (node, bindings) in scope (Func, node or list of stmts) matching."""
    pat = _parse(pattern) if isinstance(pattern, str) else pattern
    if isinstance(scope, Func) or (not isinstance(scope, (ast.AST, list)) and hasattr(scope, "body")):
        nodes = walk_own(scope.body)
    elif isinstance(scope, list):
        nodes = walk_own(scope)
    else:
        nodes = ast.walk(scope)
    out = []
    for n in nodes:
        b = match(pat, n, env)
        if b is not None:
            out.append((n, b))
    return out


def has(pattern, scope, env=None):
    return bool(find(pattern, scope, env))


def first(pattern, scope, env=None):
    got = find(pattern, scope, env)
    return got[0] if got else (None, None)


def name_of(binding):
    if isinstance(binding, str):
        return binding
    if isinstance(binding, ast.Name):
        return binding.id
    if isinstance(binding, ast.arg):
        return binding.arg
    return norm(binding) if isinstance(binding, ast.AST) else None
