"""Purity / state rules P1-P6 (DESIGN section 3)."""
import ast

from .core import rule
from .model import AnalysisError, dotted, norm, walk_own
from . import effects
from .effects import F, G, fmt_atoms, fmt_atom
from .paths import Parents, guards_of, flat_guards, strip_not, always_exits, np_atom


VALIDATION_ROOTS = ["Element.__call__", "Object.__new__", "Object.__init__", "_Property.__call__"]


def validation_roots(ctx):
    return [ctx.func(n) for n in VALIDATION_ROOTS]


def validation_reach(ctx):
    def build(c):
        return c.inf.reachable(validation_roots(c))
    return ctx.get("validation_reach", build)


def _effects(ctx):
    return ctx.get("effects", effects.build)


# Shared writes tolerated by P1 - each has checked side conditions in P2.
def _tolerated(origin):
    f = origin.func
    if origin.what == "primitive" and f.short == "Properties.__init__" and origin.callee is not None \
            and origin.callee.short == "_Property.bind":
        return "P2: convergent binding write (Properties.__init__ binds each declared property to its own key and element)"
    if f.short == "NotPassed.__new__" and origin.what == "store" and origin.target.endswith("._instance"):
        return "P2: import-time singleton store, guarded by `is None`"
    return None


@rule("P1", "no write to shared state (element tree, input value, globals) on any validation path")
def p1(ctx, res):
    ef = _effects(ctx)
    inf = ctx.inf
    roots = validation_roots(ctx)
    reach = validation_reach(ctx)
    init_root = ctx.func("Object.__init__")
    shared = {}  # origin -> {root: atoms}
    for root in roots:
        for origin, atoms in ef.mut[root].items():
            atoms = set(atoms) - {F}
            if root is init_root:
                # `self` of Object.__init__ is the instance under construction (guarded by P5)
                atoms -= {("P", init_root, 0)}
            if atoms:
                shared.setdefault(origin, {})[root] = atoms
    n_writes = 0
    seen_keys = set()
    for f in sorted(reach, key=lambda f: f.qualname):
        for origin, atoms in ef.all_writes(f):
            n_writes += 1
            key = (f.qualname, norm(origin.node))
            if key in seen_keys:
                continue
            seen_keys.add(key)
            if origin in shared:
                continue
            res.ok(f, origin.node, detail={"kind": origin.what, "target_owner": fmt_atoms(atoms)},
                   reason="target is fresh in every activation reachable from a validation root, or is the "
                          "object under construction")
    for origin, by_root in sorted(shared.items(), key=lambda kv: kv[0].key()):
        root, atoms = sorted(by_root.items(), key=lambda kv: kv[0].qualname)[0]
        atom = sorted(atoms, key=repr)[0]
        path = ef.chain(root, origin, atom)
        detail = {
            "kind": origin.what,
            "roots": {r.short: fmt_atoms(a) for r, a in by_root.items()},
            "path": [f"root {root.short}: shared owner {fmt_atom(atom)}"] + path,
        }
        why = _tolerated(origin)
        if why:
            res.justified(origin.func, origin.node, why, detail)
        else:
            res.violation(origin.func, origin.node, detail,
                          reason="write construct whose target may be owned by the element tree / input value / "
                                 "a module-level object, reachable from a validation root")
    res.floor("validation_graph_functions", len(reach), 100)
    res.floor("write_constructs_in_graph", n_writes, 25)
    res.stat("edges", inf.edge_counts(reach))
    res.stat("effect_rounds", ef.rounds)
    res.stat("owned_fields", sorted(ef.owned_fields))
    fb = sorted({(s.caller.short, norm(s.node)) for f in reach for s in inf.sites(f)[0] if s.edge == "fallback"})
    res.stat("fallback_call_sites", [f"{a} :: {b}" for a, b in fb])
    if len(fb) > 6:
        raise AnalysisError(f"P1: {len(fb)} call sites on values of unknown origin inside the validation graph "
                            f"(hand-confirmed: 3); the call graph is no longer precise enough: {fb}")


@rule("P2", "the tolerated binding writes are convergent (functions of configuration only)")
def p2(ctx, res):
    bind = ctx.func("_Property.bind")
    sp = bind.self_param()
    pnames = {p.name for p in bind.params}
    P = Parents(bind)
    n = 0
    for node in walk_own(bind.body):
        tgt = None
        if isinstance(node, ast.Assign) and len(node.targets) == 1:
            tgt = node.targets[0]
        elif isinstance(node, (ast.AugAssign, ast.AnnAssign)):
            tgt = node.target
        elif isinstance(node, ast.Delete):
            res.violation(bind, node, reason="bind may only store parent/name/source")
            continue
        elif isinstance(node, ast.Call) and (dotted(node.func) in ("setattr", "delattr") or (
                isinstance(node.func, ast.Attribute) and node.func.attr in effects.MUTATORS)):
            res.violation(bind, node, reason="bind may only store parent/name/source by plain assignment")
            continue
        if tgt is None:
            continue
        n += 1
        okay = (isinstance(tgt, ast.Attribute) and isinstance(tgt.value, ast.Name) and tgt.value.id == sp
                and tgt.attr in ("parent", "name", "source") and isinstance(node, ast.Assign)
                and isinstance(node.value, ast.Name) and node.value.id in pnames)
        reason = "plain store of a parameter into parent/name/source"
        if okay and tgt.attr == "source":
            gs = flat_guards(P, node)
            okay = any(norm(t) == f"{sp}.source" and pol is False for t, pol in gs)
            reason = "source is only filled in when unset (`if not self.source`)"
        res.check(okay, bind, node, reason=reason)
    res.floor("bind_stores", n, 3)

    # the tolerated call site
    init = ctx.func("Properties.__init__")
    isp = init.self_param()
    found = 0
    for node in walk_own(init.body):
        if isinstance(node, ast.For):
            for sub in ast.walk(node):
                if isinstance(sub, ast.Call) and isinstance(sub.func, ast.Attribute) and sub.func.attr == "bind":
                    found += 1
                    it = node.iter
                    ok_iter = (isinstance(it, ast.Call) and isinstance(it.func, ast.Attribute)
                               and it.func.attr == "items" and norm(it.func.value) == f"{isp}.props")
                    ok_tgt = isinstance(node.target, ast.Tuple) and len(node.target.elts) == 2 and all(
                        isinstance(e, ast.Name) for e in node.target.elts)
                    kw = {k.arg: k.value for k in sub.keywords}
                    pos = list(sub.args)
                    name_arg = kw.get("name", pos[0] if pos else None)
                    parent_arg = kw.get("parent", pos[1] if len(pos) > 1 else None)
                    ok_args = False
                    if ok_iter and ok_tgt:
                        key, val = node.target.elts
                        ok_args = (isinstance(sub.func.value, ast.Name) and sub.func.value.id == val.id
                                   and isinstance(name_arg, ast.Name) and name_arg.id == key.id
                                   and parent_arg is not None and norm(parent_arg) == f"{isp}.element")
                    res.check(ok_iter and ok_tgt and ok_args, init, sub,
                              reason="each declared property is bound under its own dict key to this helper's element")
    res.floor("bind_call_in_Properties_init", found, 1)
    # self.element is the constructor argument
    stores = [n for n in walk_own(init.body) if isinstance(n, ast.Assign) and any(
        norm(t) == f"{isp}.element" for t in n.targets)]
    res.check(len(stores) == 1 and isinstance(stores[0].value, ast.Name) and init.param(stores[0].value.id) is not None,
              init, stores[0] if stores else "self.element = element",
              reason="the bound parent is the element the helper was built for")

    # NotPassed singleton
    new = ctx.func("NotPassed.__new__")
    P2 = Parents(new)
    n_store = 0
    for node in walk_own(new.body):
        if isinstance(node, ast.Assign) and any(isinstance(t, ast.Attribute) and t.attr == "_instance" for t in node.targets):
            n_store += 1
            gs = flat_guards(P2, node)
            # `inst = cls._instance; if inst is None:` tests the same thing through a local read just before
            aliases = {norm(st.targets[0]) for st in walk_own(new.body) if isinstance(st, ast.Assign) and len(st.targets) == 1
                       and isinstance(st.targets[0], ast.Name) and isinstance(st.value, ast.Attribute) and st.value.attr == "_instance"
                       and st.lineno < node.lineno}
            okay = any((norm(t).endswith("._instance is None") or norm(t) in {f"{a} is None" for a in aliases}) and pol for t, pol in gs)
            res.check(okay, new, node, reason="singleton store happens only while no instance exists")
    res.floor("singleton_store", n_store, 1)
    einit = ctx.func("Element.__init__")
    defaults = [p.default for p in einit.params if p.default is not None]
    has = any(isinstance(d, ast.Call) and dotted(d.func) == "NotPassed" for d in defaults)
    res.check(has, einit, "default=NotPassed() in signature",
              reason="the singleton is created when the signature is evaluated at import, before any validation")


@rule("P3", "per-call property variants are fresh objects; the shared property is only returned, never written")
def p3(ctx, res):
    ef = _effects(ctx)
    for short in ["_Property.evolve", "_Property.clone", "Properties.property", "Items.property"]:
        f = ctx.func(short)
        r = ef.ret[f]
        res.check(r.own == frozenset({F}), f, f"return value of {short}",
                  detail={"ret": repr(r)}, reason="returns an object allocated in this activation")
    gi = ctx.func("Properties.__getitem__")
    bad = {o: a for o, a in ef.mut[gi].items() if any(isinstance(x, tuple) for x in a)}
    res.check(not bad, gi, "writes in Properties.__getitem__",
              detail={"writes": [f"{o.func.short} :: {norm(o.node)} -> {fmt_atoms(a)}" for o, a in bad.items()]},
              reason="looking a property up never writes the declared (shared) property")
    r = ef.ret[gi]
    res.stat("Properties.__getitem__.ret", repr(r))


CACHE_DECORATOR_WORDS = ("cache", "memo", "lru")


@rule("P4", "nothing derived from configuration is remembered between calls")
def p4(ctx, res):
    ef = _effects(ctx)
    prog = ctx.prog
    reach = validation_reach(ctx)
    getters = []
    for cname in sorted(c.qualname for c in prog.classes.values()):
        c = prog.classes[cname]
        for pn in ("validators", "type_validator", "__properties__", "__items__", "annotation", "item_annotations"):
            if pn in c.props and "get" in c.props[pn]:
                getters.append(c.props[pn]["get"])
    helper_funcs = [ctx.func("get_validators"), ctx.func("_all_subclasses")]
    allowed = {"property", "staticmethod", "classmethod", "reraise", "wraps", "functools.wraps"}
    n_dec = 0
    for f in sorted(set(reach) | set(getters) | set(helper_funcs), key=lambda f: f.qualname):
        for d in f.decorators:
            n_dec += 1
            dn = dotted(d.func if isinstance(d, ast.Call) else d) or norm(d)
            low = dn.lower()
            bad = any(w in low for w in CACHE_DECORATOR_WORDS)
            if bad:
                res.violation(f, f"@{dn}", reason="caching decorator on a function of the validation graph: a verdict "
                                                   "would depend on an earlier call or configuration")
            elif dn in allowed or dn.endswith(".setter") or dn.endswith(".register"):
                res.ok(f, f"@{dn}")
            else:
                # unknown decorator: must resolve to a repo function (analysed) - else we cannot see through it
                t = ctx.inf.type_of(d, f.parent or f.module)
                res.check(any(x[0] in ("fn", "rawfn") for x in t), f, f"@{dn}",
                          reason="decorator resolves to repository code that the effect analysis covers")
    # caches built by hand: lru_cache(...)(f), cached_property(f), functools.cache(f) called as functions
    classes_in_graph = {f.cls for f in reach if f.cls is not None}
    scan = set(reach)
    for c in classes_in_graph:
        scan |= set(c.methods.values())
    for f in sorted(scan, key=lambda f: f.qualname):
        for n in walk_own(f.body):
            if isinstance(n, ast.Call):
                dn = dotted(n.func) or ""
                last = dn.split(".")[-1].lower()
                if last in ("lru_cache", "cache", "cached_property", "memoize", "memoise", "memoized"):
                    res.violation(f, n, reason="a cache is constructed inside the validation graph: answers would be remembered "
                                               "across calls, registrations and reconfigurations")
    fresh_getters = [g for g in getters if g.prop_name in ("validators", "type_validator", "__properties__", "__items__")]
    for g in fresh_getters + helper_funcs:
        r = ef.ret[g]
        fresh_or_imm = r.own <= frozenset({F})
        res.check(fresh_or_imm, g, f"return value of {g.short}", detail={"ret": repr(r)},
                  reason="derived helper is built afresh (or is an immutable value) on every access, not a stored object")
    res.floor("derived_getters", len(getters), 20)


@rule("P5", "Object.__init__ refuses to re-initialise an existing instance")
def p5(ctx, res):
    init = ctx.func("Object.__init__")
    sp = init.self_param()
    vparam = init.params[1].name if len(init.params) > 1 else None
    if vparam is None:
        raise AnalysisError("Object.__init__ lost its value parameter")
    ef = _effects(ctx)
    P = Parents(init)
    n = 0
    for origin, atoms in ef.all_writes(init):
        if ("P", init, 0) not in atoms:
            continue
        n += 1
        gs = flat_guards(P, origin.node)
        okay = False
        for t, pol in gs:
            if isinstance(t, ast.Compare) and len(t.ops) == 1 and isinstance(t.ops[0], (ast.Is, ast.IsNot)):
                names = {norm(t.left), norm(t.comparators[0])}
                if names == {sp, vparam}:
                    is_same = isinstance(t.ops[0], ast.Is)
                    if (is_same and pol is False) or (not is_same and pol is True):
                        okay = True
        res.check(okay, init, origin.node,
                  reason="every write to the instance is dominated by the `value is self` early return "
                         "(Object.__new__ may hand back an existing instance, which Python then passes to __init__)")
    res.floor("writes_to_self_in_Object_init", n, 3)
    # Object.__new__: an existing object is returned only under isinstance(value, cls)
    new = ctx.func("Object.__new__")
    PN = Parents(new)
    for node in walk_own(new.body):
        if isinstance(node, ast.Return) and node.value is not None and isinstance(node.value, ast.Name) \
                and node.value.id == new.params[1].name:
            gs = flat_guards(PN, node)
            ok1 = any(norm(t) == f"isinstance({new.params[1].name}, {new.params[0].name})" and pol for t, pol in gs)
            ok2 = any((np_atom(t, pol) or (None, None)) == (new.params[1].name, True) for t, pol in gs)
            res.check(ok1 or ok2, new, node,
                      reason="the caller's value is handed back unvalidated only when it already is an instance "
                             "of this class, or is the not-passed marker")


@rule("P7", "the per-call property resolver re-binds every declared property, whatever route put it in the mapping")
def p7(ctx, res):
    from .norm import view
    init = ctx.func("Properties.__init__")
    pd = ctx.cls("_PropertyDict")
    # routes into the mapping that do not pass through the binding __setitem__
    bypass = [m for m in ("update", "setdefault", "__ior__") if m not in pd.methods]
    res.stat("dict_mutators_not_overridden_by__PropertyDict", bypass)
    vb = view(init, ctx.prog).body
    P = Parents(vb)
    loops = []
    for n in walk_own(vb):
        if isinstance(n, ast.For) and norm(n.iter) in ("self.props.items()", "(props or {}).items()", "props.items()"):
            tg = n.target
            if isinstance(tg, ast.Tuple) and len(tg.elts) == 2:
                nm, pr = norm(tg.elts[0]), norm(tg.elts[1])
                binds = [x for x in walk_own(n.body) if isinstance(x, ast.Call) and norm(x.func) == f"{pr}.bind"
                         and any(k.arg == "name" and norm(k.value) == nm for k in x.keywords)
                         and any(k.arg == "parent" and norm(k.value) in ("self.element", init.params[1].name) for k in x.keywords)]
                if binds:
                    inner = guards_of(Parents(n.body), binds[0])
                    loops.append((n, guards_of(P, n), inner))
    if not loops:
        verdict = None if not bypass else False
        res.judge(verdict, init, "for name, prop in self.props.items(): prop.bind(name=name, parent=self.element)",
                  detail={"unbound_routes": bypass},
                  reason="no binding pass at all, while dict.update / setdefault / |= on the property mapping do not bind: "
                         "properties added that way stay unbound (source None) and are never found by their JSON name")
        return
    n, outer, inner = loops[0]
    early = any(isinstance(x, ast.Return) for st in vb[:vb.index(n)] for x in ast.walk(st)) if n in vb else True
    unconditional = not outer and not inner and not early
    res.judge(True if unconditional else (False if bypass else None), init,
              "for name, prop in self.props.items(): prop.bind(name=name, parent=self.element)",
              detail={"guards": [norm(t) for t, _ in outer + inner], "unbound_routes": bypass},
              reason="the binding pass is unconditional: a property put into the mapping through a route that does not bind "
                     "(dict.update, setdefault, |=) is still resolved by its JSON name on the next validation" if unconditional else
                     "the binding pass is skipped under a condition, while dict.update / setdefault / |= on the mapping do not "
                     "bind: a reconfigured class validates differently from a freshly built one")


@rule("P6", "inherited properties reach a subclass only as clones")
def p6(ctx, res):
    new = ctx.func("ObjectMeta.__new__")
    inf = ctx.inf
    binds = inf.bindings(new)
    stores = [n for n in walk_own(new.body) if isinstance(n, ast.Assign) and any(
        isinstance(t, ast.Attribute) and t.attr == "properties" for t in n.targets)]
    if not stores:
        raise AnalysisError("ObjectMeta.__new__ no longer stores `properties`")
    classdict = new.params[3].name if len(new.params) > 3 else "classdict"

    def is_inherited_source(e):
        """expression denoting the inherited `properties` mapping"""
        if isinstance(e, ast.Call):
            d = dotted(e.func)
            if d == "getattr" and len(e.args) >= 2 and isinstance(e.args[1], ast.Constant) and e.args[1].value == "properties":
                return True
            # helper lambdas previous(attr, default) / get_value(value, attr)
            if isinstance(e.func, ast.Name) and e.func.id in new.locals():
                for a in e.args:
                    if isinstance(a, ast.Constant) and a.value == "properties":
                        return True
        if isinstance(e, ast.Attribute) and e.attr == "properties":
            return norm(e.value) != classdict
        return False

    seen = set()

    def tainted(e, depth=0):
        """True if `e` may evaluate to (a container holding) an inherited
        property object that has not been cloned."""
        if depth > 12 or e is None:
            return False
        if is_inherited_source(e):
            return True
        if isinstance(e, ast.Call):
            if isinstance(e.func, ast.Attribute) and e.func.attr == "clone" and not e.args:
                return False
            if isinstance(e.func, ast.Attribute) and e.func.attr in ("items", "values", "copy", "get", "pop"):
                return tainted(e.func.value, depth + 1)
            if dotted(e.func) in ("dict", "list", "tuple", "sorted", "OrderedDict", "ChainMap", "collections.ChainMap"):
                return any(tainted(a, depth + 1) for a in list(e.args) + [k.value for k in e.keywords])
            if dotted(e.func) in ("_Property", "Property"):
                return False
            return any(tainted(a, depth + 1) for a in list(e.args) + [k.value for k in e.keywords]) and \
                dotted(e.func) not in ("isinstance", "len", "repr", "str")
        if isinstance(e, ast.Name):
            key = e.id
            if key in seen:
                return False
            seen.add(key)
            try:
                for b in binds.get(e.id, []):
                    if b[0] == "assign" and tainted(b[1], depth + 1):
                        return True
                    if b[0] == "iter" and tainted(b[1], depth + 1):
                        return True
                    if b[0] == "unpack" and b[1][0] == "iter" and tainted(b[1][1], depth + 1):
                        return True
                    if b[0] == "unpack" and b[1][0] == "assign" and tainted(b[1][1], depth + 1):
                        return True
                # contents added to a local container
                for n in walk_own(new.body):
                    if isinstance(n, ast.Assign):
                        for t in n.targets:
                            if isinstance(t, ast.Subscript) and isinstance(t.value, ast.Name) and t.value.id == e.id:
                                if tainted(n.value, depth + 1):
                                    return True
                    if isinstance(n, ast.Call) and isinstance(n.func, ast.Attribute) and isinstance(n.func.value, ast.Name) \
                            and n.func.value.id == e.id and n.func.attr in effects.MUTATORS:
                        if any(tainted(a, depth + 1) for a in list(n.args) + [k.value for k in n.keywords]):
                            return True
            finally:
                seen.discard(key)
            return False
        if isinstance(e, ast.Dict):
            return any(tainted(v, depth + 1) for v in e.values)
        if isinstance(e, (ast.List, ast.Tuple, ast.Set)):
            return any(tainted(v, depth + 1) for v in e.elts)
        if isinstance(e, ast.DictComp):
            return tainted(e.value, depth + 1)
        if isinstance(e, (ast.ListComp, ast.SetComp, ast.GeneratorExp)):
            return tainted(e.elt, depth + 1)
        if isinstance(e, (ast.BoolOp,)):
            return any(tainted(v, depth + 1) for v in e.values)
        if isinstance(e, ast.IfExp):
            return tainted(e.body, depth + 1) or tainted(e.orelse, depth + 1)
        if isinstance(e, ast.Subscript):
            return tainted(e.value, depth + 1)
        if isinstance(e, ast.Starred):
            return tainted(e.value, depth + 1)
        return False

    n_sources = sum(1 for n in walk_own(new.body) if is_inherited_source(n))
    for st in stores:
        res.check(not tainted(st.value), new, st,
                  reason="every property object taken from the inherited mapping passes through .clone() before it "
                         "is stored on the new class")
    res.floor("inherited_property_sources", n_sources, 1)
    # precedence among ancestors: an attribute lookup on the class follows the MRO (the nearest ancestor's merged mapping
    # wins); an explicit walk over the MRO merges in the order it is written
    from .norm import view as _view
    vb = _view(new, ctx.prog).body
    walks = 0
    for n in walk_own(vb):
        its = []
        if isinstance(n, ast.For):
            its.append((n.iter, n.body))
        elif isinstance(n, (ast.DictComp, ast.ListComp, ast.GeneratorExp, ast.SetComp)):
            for g_ in n.generators:
                its.append((g_.iter, [n]))
        for it, body in its:
            txt = norm(it)
            if not ("__mro__" in txt or ".mro()" in txt or "__bases__" in txt or txt == new.params[2].name):
                continue
            if not any((isinstance(x, ast.Attribute) and x.attr.lstrip("_") == "properties")
                       or (isinstance(x, ast.Constant) and isinstance(x.value, str) and x.value.lstrip("_") == "properties")
                       for b_ in body for x in ast.walk(b_)):
                continue
            walks += 1
            backwards = isinstance(it, ast.Call) and dotted(it.func) == "reversed" or \
                (isinstance(it, ast.Subscript) and isinstance(it.slice, ast.Slice) and it.slice.step is not None
                 and norm(it.slice.step) == "-1")
            last_wins = any(isinstance(x, ast.Call) and isinstance(x.func, ast.Attribute) and x.func.attr == "update" for b_ in body for x in ast.walk(b_)) \
                or any(isinstance(x, ast.Assign) and any(isinstance(t, ast.Subscript) for t in x.targets) for b_ in body for x in ast.walk(b_)) \
                or isinstance(n, ast.DictComp)
            first_wins = any(isinstance(x, ast.Call) and isinstance(x.func, ast.Attribute) and x.func.attr == "setdefault" for b_ in body for x in ast.walk(b_))
            if last_wins and not first_wins:
                res.judge(True if backwards else False, new, f"ancestors walked as {txt[:60]}",
                          reason="ancestors are merged nearest-first with later entries overwriting earlier ones: the FARTHEST "
                                 "ancestor's declaration of a property wins over an intermediate override")
            else:
                res.judge(None, new, f"ancestors walked as {txt[:60]}")
    res.stat("explicit_ancestor_walks", walks)
    clone = ctx.func("_Property.clone")
    ef = _effects(ctx)
    res.check(ef.ret[clone].own == frozenset({F}), clone, "return value of _Property.clone",
              reason="clone() allocates a new property object")
