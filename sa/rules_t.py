"""Sibling-table agreement rules T1-T11 (DESIGN section 3)."""
import ast
import keyword
import re

from .core import rule
from .model import AnalysisError, dotted, norm, walk_own
from .paths import Parents, guards_of, np_atom, strip_not, flat_guards
from .pat import has, find, first, name_of, match, _parse
from .norm import view, builders
from .paths import isinstance_atom, cmp_atom, ret_expr, enumerate_paths, eval3


# ------------------------------------------------------------------ helpers
def kwonly(func):
    return [p.name for p in func.params if p.kind == "kwonly"]


def deref_const(ctx, scope, expr, depth=0):
    """Follow a bare name to the module-level constant it denotes (a constant
    moved to module level is the same constant); `re.compile(X)` -> X."""
    if depth > 4:
        return expr
    if isinstance(expr, ast.Name):
        r = ctx.prog.resolve_in(scope, expr.id)
        if r and r[0] == "const" and r[2] is not None:
            return deref_const(ctx, scope, r[2], depth + 1)
    if isinstance(expr, ast.Call) and dotted(expr.func) == "re.compile" and expr.args:
        return deref_const(ctx, scope, expr.args[0], depth + 1)
    return expr


def str_elts(expr):
    """Strings of a tuple/list/set display of string constants, else None."""
    if isinstance(expr, (ast.Tuple, ast.List, ast.Set)):
        out = []
        for e in expr.elts:
            if isinstance(e, ast.Constant) and isinstance(e.value, str):
                out.append(e.value)
            else:
                return None
        return out
    if isinstance(expr, ast.Call) and dotted(expr.func) in ("tuple", "list", "set", "frozenset"):
        if not expr.args:
            return []
        return str_elts(expr.args[0])
    return None


def element_family(ctx):
    base = ctx.cls("Element")
    return [base] + ctx.prog.subclasses(base)


def own_init(c):
    return c.methods.get("__init__")


def module_const(ctx, relpath, name):
    mod = ctx.prog.by_relpath.get(relpath)
    if mod is None or name not in mod.consts:
        raise AnalysisError(f"module constant {relpath}::{name} vanished")
    return mod.consts[name]


def ann_text(p):
    return norm(p.annotation) if p.annotation is not None else ""


def top_level_unconditional(func, node):
    """node is a top-level statement of func's body and no earlier top-level
    statement can return normally before it."""
    if node not in func.body:
        return False
    idx = func.body.index(node)
    for prev in func.body[:idx]:
        if isinstance(prev, (ast.FunctionDef, ast.AsyncFunctionDef, ast.ClassDef)):
            continue
        for x in walk_own([prev]):
            if isinstance(x, ast.Return):
                return False
    return True


def validator_classes(ctx):
    base = ctx.cls("Validator")
    return base, ctx.prog.subclasses(base)


def class_keywords(c):
    g = c.lookup("keywords")
    if g and g[0] == "const":
        return str_elts(g[1])
    return None


def class_types(c):
    """Validator.types as a sorted list of names, or None for `None`."""
    g = c.lookup("types")
    if not g or g[0] != "const":
        return "?"
    e = g[1]
    if isinstance(e, ast.Constant) and e.value is None:
        return None
    if isinstance(e, (ast.Tuple, ast.List)):
        return sorted(norm(x) for x in e.elts)
    return "?"


# ---------------------------------------------------------------------- T1
@rule("T1", "every element constructor's keywords are in the enumeration that serializer/parser walk")
def t1(ctx, res):
    base_init = ctx.func("Element.__init__")
    base_kw = set(kwonly(base_init))
    n = 0
    for c in element_family(ctx):
        init = own_init(c)
        if init is None:
            continue
        n += 1
        names = [p.name for p in init.params[1:]]
        extra = [x for x in names if x not in base_kw and x not in ("elements", "element")]
        res.check(not extra, init, f"signature of {c.name}.__init__",
                  detail={"unknown_keywords": extra},
                  reason="parameter names are keyword-only names of Element.__init__ (or the composition slots "
                         "elements/element): _serialize_element and _keyword_filter enumerate Element.__init__")
    res.floor("element_constructors", n, 9)
    res.floor("base_keywords", len(base_kw), 27)
    # the enumerations really are over Element.__init__
    ser = view(ctx.func("_serialize_element"), ctx.prog)
    found = any(isinstance(x, ast.Call) and dotted(x.func) == "inspect.signature" and x.args
                and norm(x.args[0]) == "Element.__init__" for x in walk_own(ser.body))
    res.check(found, ser, "inspect.signature(Element.__init__)",
              reason="the serializer enumerates Element.__init__'s keyword-only parameters")
    # both composition slots are emitted explicitly
    res.judge(True if (has("MV_s[MV_e.mode] = MV_e.elements", ser)) else None, ser, "schema[element.mode] = element.elements",
              reason="the `elements` slot is emitted under the element's mode keyword")
    res.judge(True if (has("MV_s['not'] = MV_e.element", ser)) else None, ser, "schema['not'] = element.element",
              reason="the `element` slot is emitted under `not`")
    kf = ctx.func("_keyword_filter")
    found = any(isinstance(x, ast.Call) and dotted(x.func) == "inspect.signature" and x.args
                and norm(x.args[0]).endswith(".__init__") for x in walk_own(kf.body))
    res.check(found, kf, "inspect.signature(type_.__init__)", reason="the parser filters by the target class's own signature")


# ---------------------------------------------------------------------- T2
def _stores_param(init, p, ctx, depth=0):
    """Is parameter p stored as attribute p on every normally returning path?"""
    sp = init.self_param()
    for st in init.body:
        if isinstance(st, (ast.Assign, ast.AnnAssign)):
            targets = st.targets if isinstance(st, ast.Assign) else [st.target]
            for t in targets:
                if isinstance(t, ast.Attribute) and norm(t.value) == sp and t.attr == p.name:
                    v = st.value
                    ok = False
                    if isinstance(v, ast.Name) and v.id == p.name:
                        ok = True
                    elif isinstance(v, ast.Call) and dotted(v.func) in ("list", "tuple", "dict") and len(v.args) == 1 \
                            and isinstance(v.args[0], ast.Name) and v.args[0].id == p.name:
                        ok = True  # transparent wrapper
                    if ok and top_level_unconditional(init, st):
                        return "stored"
        if isinstance(st, ast.Expr) and isinstance(st.value, ast.Call):
            call = st.value
            if isinstance(call.func, ast.Attribute) and call.func.attr == "__init__" and isinstance(call.func.value, ast.Call) \
                    and dotted(call.func.value.func) == "super":
                for k in call.keywords:
                    if k.arg == p.name and isinstance(k.value, ast.Name) and k.value.id == p.name \
                            and top_level_unconditional(init, st) and depth < 3:
                        # forwarded: the next __init__ in the MRO must store it
                        for c in init.cls.mro[1:]:
                            nxt = c.methods.get("__init__")
                            if nxt is not None:
                                q = nxt.param(p.name)
                                if q is not None and _stores_param(nxt, q, ctx, depth + 1):
                                    return "forwarded"
                                break
    return None


@rule("T2", "every constructor parameter is stored under its own name (generic readers find it)")
def t2(ctx, res):
    n_params = 0
    classes = [c for c in element_family(ctx) if own_init(c) is not None]
    classes.append(ctx.cls("_Property"))
    for c in classes:
        init = own_init(c)
        for p in init.params[1:]:
            n_params += 1
            how = _stores_param(init, p, ctx)
            res.check(how is not None, init, f"self.{p.name} = {p.name}",
                      reason=f"parameter `{p.name}` is {how or 'NOT'} stored as attribute `{p.name}` on every path "
                             "(custom_repr_args / get_validators / _serialize_element read it by that name)")
    # ObjectMeta.__new__ slot agreement
    new = ctx.func("ObjectMeta.__new__")
    slots = kwonly(new)
    vnew = view(new, ctx.prog).body
    paths_new = enumerate_paths(vnew)
    # stores through setattr with a computed name: readable only as "conditional or not"
    dyn_sets = [x for x in walk_own(vnew) if isinstance(x, ast.Call) and dotted(x.func) == "setattr" and len(x.args) == 3
                and norm(x.args[0]) == "cls" and not isinstance(x.args[1], ast.Constant)]
    dyn_conditional = any(guards_of(Parents(vnew), x, stop_at_loop=True) for x in dyn_sets)
    for p in slots:
        n_params += 1
        if p == "properties":
            continue
        result = {}
        unknown = False
        for npass in (True, False):   # NP(p): the keyword was NOT passed
            def ae(e, npass=npass, p=p):
                a_ = np_atom(e)
                if a_ and a_[0] == p:
                    return npass if a_[1] else (not npass)
                return None

            def labels_of(v_):
                if isinstance(v_, ast.IfExp):
                    t_ = eval3(v_.test, ae)
                    if t_ is True:
                        return labels_of(v_.body)
                    if t_ is False:
                        return labels_of(v_.orelse)
                    return labels_of(v_.body) | labels_of(v_.orelse)
                if norm(v_) == p:
                    return {"passed"}
                if isinstance(v_, ast.Call) and dotted(v_.func) == "getattr" and len(v_.args) == 3 and norm(v_.args[0]) == "cls" \
                        and isinstance(v_.args[1], ast.Constant):
                    return {"inherited" if v_.args[1].value == p else f"inherited:{v_.args[1].value}"}
                return {"other:" + norm(v_)[:40]}
            labs = set()
            for pth in paths_new:
                feas = True
                for cnd in pth.conds:
                    if isinstance(cnd[0], str):
                        continue
                    val = eval3(cnd[0], ae)
                    if val is not None and val != cnd[1]:
                        feas = False
                        break
                if not feas or pth.exit != "return":
                    continue
                vals = [st.value for st in pth.stmts if isinstance(st, (ast.Assign, ast.AnnAssign)) and st.value is not None
                        and any(norm(t) == f"cls.{p}" for t in (st.targets if isinstance(st, ast.Assign) else [st.target]))]
                labs |= labels_of(vals[-1]) if vals else {"unset"}
            result[npass] = labs
            unknown = unknown or any(x.startswith("other:") or x == "unset" for x in labs)
        good = result == {True: {"inherited"}, False: {"passed"}}
        only_when_passed = result.get(True) == {"unset"} and result.get(False) == {"passed"}
        if not good and result.get(True) == {"unset"} and result.get(False) == {"unset"} and dyn_sets and dyn_conditional:
            only_when_passed = True   # the keyword is stored through a guarded setattr: not on every class
        res.judge(True if good else (False if only_when_passed else (None if unknown else False)), new, f"cls.{p} = <{p} if passed else inherited {p}>",
                  detail={"not passed": sorted(result[True]), "passed": sorted(result[False])},
                  reason="class keyword falls back to the inherited attribute of the SAME name, and is stored on the class")
    # properties store exists
    def stores_properties(pth):
        return any(isinstance(st, (ast.Assign, ast.AnnAssign)) and any(norm(t) == "cls.properties" for t in
                   (st.targets if isinstance(st, ast.Assign) else [st.target])) for st in pth.stmts if isinstance(st, ast.AST))
    ret_paths = [pth for pth in paths_new if pth.exit == "return"]
    res.check(bool(ret_paths) and all(stores_properties(pth) for pth in ret_paths),
              new, "cls.properties = {...}", reason="properties are stored on the class itself on every path (a class that only "
                                                    "resolves them through the MRO shares its parent's property objects)")
    # no constructor rebinds a keyword parameter before storing it
    for f in [own_init(c) for c in classes] + [new]:
        names = {p.name for p in f.params[1:]}
        for n in walk_own(f.body):
            if isinstance(n, ast.Name) and isinstance(n.ctx, (ast.Store, ast.Del)) and n.id in names:
                res.violation(f, f"{n.id} is reassigned inside {f.short}",
                              reason=f"the stored value of `{n.id}` is no longer the caller's argument (or the inherited attribute): "
                                     "a keyword is altered between the call and the attribute generic readers see")
    res.floor("constructor_parameters", n_params, 75)


# ---------------------------------------------------------------------- T3
def positions(ctx):
    init = ctx.func("Element.__init__")
    pos = {}
    for p in init.params:
        if p.kind != "kwonly":
            continue
        a = ann_text(p)
        if "Element" in a or "_Property" in a:
            pos[p.name] = a
    return pos


def expected_path(name, ann):
    a = ann.replace("'", "").replace('"', "")
    if "Dict[str, _Property]" in a:
        return f"{name}.*.element"
    if "Dict[str," in a:
        return f"{name}.*"
    return name


@rule("T3", "every sub-schema position is walked by the orderer, parsed recursively, and serialized recursively")
def t3(ctx, res):
    pos = positions(ctx)
    res.floor("subschema_positions", len(pos), 8)
    # (a) get_children.paths
    gc0 = ctx.func("get_children")
    gc = view(gc0, ctx.prog, keep=tuple(gc0.locals()))
    paths = None
    paths_text = None
    # the list of paths is whatever the path-following loop iterates (a local or a module-level constant)
    for node, b in find("_get_path(MV_e, MV_p)", gc):
        pv = name_of(b["MV_p"])
        for x in walk_own(gc.body):
            if isinstance(x, (ast.comprehension, ast.For)) and norm(x.target) == pv:
                it_ = x.iter
                if isinstance(it_, ast.Name):
                    nm_ = it_.id
                    for st in walk_own(gc.body):
                        if isinstance(st, (ast.Assign, ast.AnnAssign)) and st.value is not None and any(
                                isinstance(t, ast.Name) and t.id == nm_ for t in (st.targets if isinstance(st, ast.Assign) else [st.target])):
                            it_ = st.value
                got = str_elts(deref_const(ctx, gc0, it_))
                if got is not None:
                    paths, paths_text = got, norm(x.iter)
    if paths is None:
        raise AnalysisError("get_children: the list of paths followed by _get_path(element, path) is no longer a literal list of strings")
    want = {expected_path(n, a) for n, a in pos.items()} | {"elements", "element"}
    for w in sorted(want):
        res.check(w in paths, gc, f"paths contains {w!r}",
                  reason="the position (with the shape its annotation in Element.__init__ implies) is walked when "
                         "collecting child elements")
    for extra in sorted(set(paths) - want):
        res.ok(gc, f"paths contains {extra!r}", reason="additional path (harmless)")
    # paths is what is iterated
    followed = False
    for node, b in find("_get_path(MV_e, MV_p)", gc):
        pv = name_of(b["MV_p"])
        for x in walk_own(gc.body):
            if isinstance(x, (ast.comprehension, ast.For)) and norm(x.target) == pv and norm(x.iter) == paths_text \
                    and not getattr(x, "ifs", []):
                followed = True
    res.check(followed, gc, "for path in paths: _get_path(element, path)", reason="every listed path is followed (no filter)")
    res.judge(True if (has("isinstance(MV_c, Element)", gc)) else None, gc, "isinstance(child, Element)", reason="children are filtered by being elements")
    res.judge(True if (has("yield from get_children(MV_c, MV_s)", gc)) else None, gc, "yield from get_children(child, seen)",
              reason="the walk is transitive")
    for c in element_family(ctx):
        for dunder in ("__getitem__", "__class_getitem__", "__getattr__", "__getattribute__"):
            if dunder in c.methods:
                res.violation(c.methods[dunder], f"{c.name}.{dunder}",
                              reason="the child walker reads a keyword with item access first and attribute access second: an element "
                                     "(or object class) that answers item/attribute look-ups itself hides its keyword values from it")
    gp0 = ctx.func("_get_path")

    class _Scope:   # _get_path together with the private helpers it delegates to
        body = list(gp0.body)
        qualname = gp0.qualname
    for site in ctx.inf.sites(gp0)[0]:
        c_ = getattr(site, "callee", None)
        if site.kind == "call" and c_ is not None and c_ is not gp0 and c_.module is gp0.module and c_.name.startswith("_"):
            _Scope.body = _Scope.body + list(c_.body)
    gp = _Scope
    res.judge(True if (has("isinstance(MV_n, list)", gp)) else None, gp, "isinstance(next_item, list)",
              reason="list-valued positions (tuple items, composition elements) are flattened")
    res.judge(True if (has("MV_e.values()", gp)) else None, gp, "list(element.values())", reason="`*` takes every value of a mapping")
    res.judge(True if (has("getattr(MV_e, MV_f)", gp)) else None, gp, "getattr(element, first)", reason="attribute fallback reads the keyword attribute")

    # (b) parser recursion
    pe = ctx.func("parse_element")
    inf = ctx.inf
    rows = {}
    # parse_element together with the private helpers it calls unconditionally as statements (the loop moved into a helper)
    scan = [(pe, list(pe.body))]
    for st in pe.body:
        if isinstance(st, ast.Expr) and isinstance(st.value, ast.Call) and isinstance(st.value.func, ast.Name):
            r_ = ctx.prog.resolve_in(pe, st.value.func.id)
            if r_ and r_[0] == "func" and hasattr(r_[1], "body") and r_[1].module is pe.module and r_[1].name.startswith("_"):
                scan.append((r_[1], list(r_[1].body)))

    def pair_rows(fn_, it):
        """(keyword, parser name) pairs of a literal tuple of pairs, or of <dict display>.items()"""
        it = deref_const(ctx, fn_, it)
        if isinstance(it, ast.Call) and isinstance(it.func, ast.Attribute) and it.func.attr == "items" and not it.args:
            d_ = it.func.value
            if isinstance(d_, ast.Name):
                local = [b[1] for b in ctx.inf.bindings(fn_).get(d_.id, []) if b[0] == "assign"] if hasattr(fn_, "locals") and d_.id in fn_.locals() else []
                d_ = local[0] if len(local) == 1 else deref_const(ctx, fn_, d_)
            if isinstance(d_, ast.Dict):
                return [(k_, v_) for k_, v_ in zip(d_.keys, d_.values)]
            return []
        if isinstance(it, (ast.Tuple, ast.List)):
            return [(r.elts[0], r.elts[1]) for r in it.elts if isinstance(r, ast.Tuple) and len(r.elts) == 2]
        return []
    for fn_, body_ in scan:
        for n in walk_own(body_):
            if not isinstance(n, ast.For):
                continue
            for k_, v_ in pair_rows(fn_, n.iter):
                if isinstance(k_, ast.Constant) and isinstance(k_.value, str) and isinstance(v_, ast.Name):
                    # the loop body must store parser(schema, state) under schema[keyword]
                    tk, tp = (norm(n.target.elts[0]), norm(n.target.elts[1])) if isinstance(n.target, ast.Tuple) and len(n.target.elts) == 2 else (None, None)
                    for node, b in find("MV_s[MV_k] = MV_p(MV_s, MV_st)", n.body):
                        if name_of(b["MV_k"]) == tk and name_of(b["MV_p"]) == tp:
                            rows[k_.value] = v_.id
    for fn_, body_ in scan:
      for st in body_:
        if isinstance(st, ast.Assign) and len(st.targets) == 1 and isinstance(st.targets[0], ast.Subscript) \
                and norm(st.targets[0].value) == "schema" and isinstance(st.targets[0].slice, ast.Constant) \
                and isinstance(st.value, ast.Call) and isinstance(st.value.func, ast.Name):
            rows[st.targets[0].slice.value] = st.value.func.id
    pe_targets = {ctx.func("parse_element"), ctx.func("reraise._decorator._wrapper")}

    def reaches_parse(fname, seen=None):
        seen = seen or set()
        f = ctx.prog.find_funcs(fname)
        if not f:
            return False
        f = f[0]
        if f in seen:
            return False
        seen.add(f)
        for s in inf.sites(f)[0]:
            if s.callee in pe_targets:
                return True
            if s.callee.module is f.module and s.kind == "call" and reaches_parse(s.callee.short, seen):
                return True
        return False

    from .paths import enumerate_paths, isinstance_atom

    def nonparsing_paths(f, seen=None):
        """Paths of f that return without going through parse_element and are
        not excused by a 'the keyword value is a boolean' test."""
        seen = seen or set()
        if f in seen:
            return []
        seen = seen | {f}
        site_idx = {}
        for s in inf.sites(f)[0]:
            site_idx.setdefault(id(s.node), []).append(s)
        bad = []
        for p in enumerate_paths(f.body):
            if p.exit == "raise":
                continue
            if any(isinstance(st, tuple) and st[0] == "loop-skip" for st in p.stmts):
                continue  # nothing to parse when the mapping is empty
            nodes = []
            for st in p.stmts:
                if isinstance(st, ast.AST):
                    nodes.append(st)
            reached = False
            for st in nodes:
                for x in ast.walk(st):
                    for s in site_idx.get(id(x), []):
                        if s.callee in pe_targets:
                            reached = True
                        elif s.kind == "call" and s.callee.module is f.module and s.callee.name.startswith("_parse") \
                                and not nonparsing_paths(s.callee, seen):
                            reached = True
            if reached:
                continue
            excused = False
            for c in p.conds:
                if isinstance(c[0], str):
                    continue
                ia = isinstance_atom(c[0], c[1])
                if ia and ia[2] and ia[1] == ["bool"]:
                    excused = True
                if ia and not ia[2] and "dict" in ia[1]:
                    excused = True  # the value is not a schema (malformed or already parsed)
                if ia and ia[2] and set(ia[1]) <= {"_Property", "Element", "list"}:
                    excused = True  # already an element / a list of names
            if not excused:
                bad.append(" and ".join(("" if pol else "not ") + norm(t) for t, pol in p.conds if not isinstance(t, str)) or "<unconditional>")
        return bad

    for k in sorted(pos):
        fn = rows.get(k)
        res.check(fn is not None and reaches_parse(fn), pe, f"schema[{k!r}] = <parser>(schema, state)",
                  detail={"parser": fn}, reason="the keyword's value is replaced by recursively parsed element(s)")
        if fn is not None and ctx.prog.find_funcs(fn):
            bad = nonparsing_paths(ctx.prog.find_funcs(fn)[0])
            res.check(not bad, ctx.prog.find_funcs(fn)[0], f"every path of {fn} parses the sub-schema",
                      detail={"paths_not_reaching_parse_element": bad},
                      reason="no path returns a value for this position without sending the sub-schema through "
                             "parse_element (a boolean additional* value excepted)")
    comp = ctx.func("_parse_composition")
    ck = str_elts(module_const(ctx, "statham/schema/constants.py", "COMPOSITION_KEYWORDS"))
    if ck is None:
        raise AnalysisError("COMPOSITION_KEYWORDS is no longer a literal tuple")
    loop_keys = set()
    # general form: a loop over the keywords whose body stores, under composition[key], a list built by sending
    # every member of composition.get(key, ...) through parse_element (comprehension or accumulate-loop)
    from .norm import strings_reaching
    vcomp = view(comp, ctx.prog, keep=tuple(comp.locals())).body
    for n in walk_own(vcomp):
        if not (isinstance(n, ast.For) and isinstance(n.target, ast.Name)):
            continue
        k_ = n.target.id
        cands = inf.iter_strings(n.iter, comp)
        if cands is None and isinstance(n.iter, ast.GeneratorExp) and len(n.iter.generators) == 1:
            cands = inf.iter_strings(n.iter.generators[0].iter, comp)
            if cands is not None:
                for c in n.iter.generators[0].ifs:
                    if isinstance(c, ast.Compare) and len(c.ops) == 1 and isinstance(c.ops[0], ast.NotEq) \
                            and isinstance(c.comparators[0], ast.Constant):
                        cands = cands - {c.comparators[0].value}
                    else:
                        cands = None
                        break
        if cands is None:
            continue
        good_builders = [b_ for b_ in builders(n.body) if b_.kind == "list" and not b_.guards
                         and match(_parse(f"MV_c.get({k_}, MV__)"), b_.iter) is not None
                         and match(_parse(f"parse_element({norm(b_.target)}, MV_st)"), b_.elt) is not None]
        for st in walk_own(n.body):
            if isinstance(st, ast.Assign) and len(st.targets) == 1 and isinstance(st.targets[0], ast.Subscript) \
                    and norm(st.targets[0].slice) == k_:
                v_ = st.value
                if any(b_.node is v_ or (isinstance(v_, ast.Name) and b_.name == v_.id) for b_ in good_builders):
                    loop_keys |= strings_reaching(n, st, cands) or set()
    for n in walk_own(comp.body):
        if isinstance(n, ast.For):
            for node, b in find("MV_c[MV_k] = [parse_element(MV_x, MV_st) for MV_x in MV_c.get(MV_k, MV__)]", n.body):
                if name_of(b["MV_k"]) == norm(n.target):
                    keys = inf.iter_strings(n.iter, comp)
                    if keys is None and isinstance(n.iter, ast.GeneratorExp) and len(n.iter.generators) == 1:
                        g = n.iter.generators[0]
                        src_keys = inf.iter_strings(g.iter, comp)
                        if src_keys is not None and norm(n.iter.elt) == norm(g.target):
                            excl = set()
                            okf = True
                            for c in g.ifs:
                                if isinstance(c, ast.Compare) and len(c.ops) == 1 and isinstance(c.ops[0], ast.NotEq) \
                                        and isinstance(c.comparators[0], ast.Constant) and norm(c.left) == norm(g.target):
                                    excl.add(c.comparators[0].value)
                                else:
                                    okf = False
                            if okf:
                                keys = src_keys - excl
                    if keys is None and isinstance(n.iter, ast.BinOp) and isinstance(n.iter.op, ast.Sub) \
                            and isinstance(n.iter.left, ast.Call) and n.iter.left.args and isinstance(n.iter.right, ast.Set):
                        src_keys = inf.iter_strings(n.iter.left.args[0], comp)
                        if src_keys is not None:
                            keys = src_keys - {e.value for e in n.iter.right.elts if isinstance(e, ast.Constant)}
                    loop_keys |= keys or set()
    # nothing else writes into the mapping that holds the raw branches: a branch list emptied, replaced or popped
    # before the loop never reaches parse_element
    cnames = {name_of(b["MV_c"]) for n in walk_own(comp.body) if isinstance(n, ast.For)
              for _, b in find("MV_c[MV_k] = [parse_element(MV_x, MV_st) for MV_x in MV_c.get(MV_k, MV__)]", n.body)}
    for b_ in builders(vcomp):
        m_ = match(_parse("MV_c.get(MV_k, MV__)"), b_.iter)
        if m_ is not None and match(_parse(f"parse_element({norm(b_.target)}, MV_st)"), b_.elt) is not None and isinstance(m_["MV_c"], ast.Name):
            cnames.add(m_["MV_c"].id)
    for cn in sorted(cnames):
        for st in walk_own(comp.body):
            bad_ = None
            if isinstance(st, ast.Assign):
                for t in st.targets:
                    if isinstance(t, ast.Subscript) and norm(t.value) == cn:
                        v_ = st.value
                        parsed = any(isinstance(x, ast.Call) and dotted(x.func) == "parse_element" for x in ast.walk(v_))
                        if not parsed and not (isinstance(v_, ast.Name) and any(b_.name == v_.id for b_ in builders(vcomp))):
                            bad_ = norm(st)[:90]
            elif isinstance(st, ast.Delete) and any(isinstance(t, ast.Subscript) and norm(t.value) == cn for t in st.targets):
                bad_ = norm(st)[:90]
            elif isinstance(st, ast.Expr) and isinstance(st.value, ast.Call) and isinstance(st.value.func, ast.Attribute) \
                    and norm(st.value.func.value) == cn and st.value.func.attr in ("pop", "clear", "popitem", "update", "setdefault"):
                bad_ = norm(st)[:90]
            if bad_:
                res.violation(comp, bad_, reason="the raw branches of a composition keyword are replaced or removed without being sent "
                                                 "through parse_element: unsupported keywords and cycles beneath them are never seen, "
                                                 "and the branch is not modelled")
    for k in ck:
        if k == "not":
            ok = True if has("parse_element(MV_s['not'], MV_st)", vcomp) or has("parse_element(MV_s['not'], MV_st)", comp) else None
        elif not loop_keys:
            ok = None   # the per-keyword parsing loop was not recognised at all
        else:
            ok = k in loop_keys and has(f"MV_c[{k!r}]", comp)
        res.judge(ok, comp, f"composition keyword {k!r} is parsed recursively",
                  reason="each composition branch goes through parse_element")
    res.floor("composition_keywords", len(ck), 4)
    # parse sends each top-level definition through parse_element
    p = ctx.func("parse")
    root_ok = any(name_of(b["MV_s"]) == p.params[0].name for _, b in find("parse_element(MV_s, MV_st)", p))
    defs_ok = False
    vp = view(p, ctx.prog).body
    root_ok = root_ok or any(name_of(b["MV_s"]) == p.params[0].name for _, b in find("parse_element(MV_s, MV_st)", vp))
    for bld in builders(vp):
        if has(f"{p.params[0].name}.get('definitions', MV__).values()", bld.iter) \
                and has(f"parse_element({norm(bld.target)}, MV_st)", bld.elt):
            defs_ok = True
    res.judge(True if (root_ok and defs_ok) else None, p,
              "parse_element(schema, state) / parse_element(definition, state)",
              reason="root and every definition are parsed through parse_element")

    # (c) serializer recursion
    sr = ctx.func("_serialize_recursive")
    d = sr.params[0].name
    vsr = view(sr, ctx.prog, keep=tuple(sr.locals())).body
    for needle, shown, why in [
        (f"isinstance({d}, _Property)", "isinstance(data, _Property)", "property wrappers are unwrapped"),
        (f"{d} = {d}.element", "data = data.element", "property wrappers are unwrapped to their element"),
        (f"isinstance({d}, Element)", "isinstance(data, Element)", "elements are converted by _serialize_element"),
        (f"isinstance({d}, ObjectMeta) and MV_o", "isinstance(data, ObjectMeta) and object_refs", "object classes become references"),
    ]:
        res.judge(True if has(needle, vsr) else None, sr, shown, reason=why)
    # names standing for the recursion itself
    rec_names = {"_serialize_recursive"}
    for node, b in find("MV_r = partial(_serialize_recursive, **MV_kw)", vsr):
        rec_names.add(name_of(b["MV_r"]))
    for node, b in find("MV_r = partial(_serialize_recursive, MV__=MV__, MV__=MV__)", vsr):
        rec_names.add(name_of(b["MV_r"]))
    for st in walk_own(vsr):
        if isinstance(st, ast.Assign) and len(st.targets) == 1 and isinstance(st.targets[0], ast.Name) \
                and isinstance(st.value, ast.Call) and dotted(st.value.func) in ("partial", "functools.partial") \
                and st.value.args and norm(st.value.args[0]) == "_serialize_recursive":
            rec_names.add(st.targets[0].id)

    def is_rec_call(e, arg):
        if not (isinstance(e, ast.Call) and e.args and norm(e.args[0]) == arg):
            return False
        f_ = e.func
        if isinstance(f_, ast.Name) and f_.id in rec_names:
            return True
        return isinstance(f_, ast.Call) and dotted(f_.func) in ("partial", "functools.partial") and f_.args \
            and norm(f_.args[0]) == "_serialize_recursive"
    lst = dct = None
    for b_ in builders(vsr):
        if b_.kind == "list" and norm(b_.iter) == d and isinstance(b_.target, ast.Name):
            good = not b_.guards and is_rec_call(b_.elt, b_.target.id)
            lst = good if lst is None else (lst and good)
        if b_.kind == "dict" and norm(b_.iter) == f"{d}.items()" and isinstance(b_.target, ast.Tuple) and len(b_.target.elts) == 2:
            k_, v_ = norm(b_.target.elts[0]), norm(b_.target.elts[1])
            good = not b_.guards and b_.key is not None and norm(b_.key) == k_ and is_rec_call(b_.elt, v_)
            dct = good if dct is None else (dct and good)
    res.judge(lst, sr, "[recur(item) for item in data]", reason="lists are recursed member by member, no filter")
    res.judge(dct, sr, "{key: recur(value) for key, value in data.items()}", reason="dicts are recursed member by member, no filter")


# ---------------------------------------------------------------------- T4
REASONED_NON_VALIDATOR_KEYWORDS = {
    "default": "annotation, not a validation keyword",
    "description": "annotation, not a validation keyword",
    "properties": "enforced through __properties__ (AdditionalProperties + per-key construction)",
    "patternProperties": "enforced through __properties__",
    "additionalProperties": "enforced through __properties__",
}


@rule("T4", "every validation keyword has exactly one validator, and every validator is consulted")
def t4(ctx, res):
    base, subs = validator_classes(ctx)
    kv = {}
    for c in subs:
        own = c.consts.get("keywords")
        kws = class_keywords(c)
        if kws is None:
            raise AnalysisError(f"{c.name}.keywords is not a literal tuple of strings")
        for k in kws:
            kv.setdefault(k, []).append(c.name)
    base_kw = kwonly(ctx.func("Element.__init__"))
    for k in base_kw:
        if k in REASONED_NON_VALIDATOR_KEYWORDS:
            res.justified("statham/schema/elements/base.py::Element.__init__", f"keyword {k}",
                          REASONED_NON_VALIDATOR_KEYWORDS[k])
            continue
        res.check(len(kv.get(k, [])) == 1, "statham/schema/elements/base.py::Element.__init__", f"keyword {k}",
                  detail={"validators": kv.get(k, [])}, reason="exactly one Validator subclass declares this keyword")
    ap = ctx.cls("AdditionalProperties")
    res.check(class_keywords(ap) == ["__properties__"], ap.qualname, "keywords = ('__properties__',)",
              reason="the properties helper is what AdditionalProperties consults")
    gp = ctx.cls("Element").props["__properties__"]["get"]
    reads = set()
    for n in walk_own(view(gp, ctx.prog).body):
        if isinstance(n, ast.Call) and dotted(n.func) == "getattr" and len(n.args) >= 2 and isinstance(n.args[1], ast.Constant):
            reads.add(n.args[1].value)
        if isinstance(n, ast.Attribute) and norm(n.value) == "self" and isinstance(n.ctx, ast.Load):
            reads.add(n.attr)
    res.check({"properties", "patternProperties", "additionalProperties"} <= reads, gp, "Properties(self, properties, patternProperties, additionalProperties)",
              detail={"reads": sorted(reads)}, reason="__properties__ is built from exactly the three property keywords")
    # every concrete validator implements _validate
    for c in subs:
        has_v = any("_validate" in k.methods for k in c.mro if k is not base)
        res.check(has_v, c.qualname, "_validate", reason="a validator class overrides _validate (the base accepts everything)")
    # get_validators excludes exactly InstanceOf and NoMatch
    gv = ctx.func("get_validators")
    excl = None
    loop_ok = False
    other_guards = []
    from .paths import flatten_guard
    for b_ in builders(view(gv, ctx.prog, keep=tuple(gv.locals())).body):
        if norm(b_.iter) != "_all_subclasses(Validator)" or b_.kind not in ("gen", "list"):
            continue
        loop_ok = True
        tv_ = norm(b_.target)
        excl = []
        for t_, pol_ in b_.guards:
            for t2, p2 in flatten_guard(t_, pol_):
                c = cmp_atom(t2, p2)
                if c and c[0] == tv_ and c[1] == "not in" and isinstance(deref_const(ctx, gv, c[4]), (ast.Tuple, ast.List, ast.Set)):
                    excl += [norm(e) for e in deref_const(ctx, gv, c[4]).elts]
                elif c and c[0] == tv_ and c[1] in ("!=", "is not"):
                    excl.append(c[2])
                elif c and c[0] == tv_:
                    excl.append("?" + norm(t2))
                else:
                    tt, pp = strip_not(t2, p2)
                    other_guards.append(("" if pp else "not ") + norm(tt))
        excl = sorted(excl)
        # anything that filters besides the exclusion must be the truthiness of the built validator
        built = {norm(st.targets[0]) for st in walk_own(gv.body) if isinstance(st, ast.Assign) and len(st.targets) == 1
                 and has(f"{tv_}.from_element(MV__)", st.value)}
        stray = [g_ for g_ in other_guards if g_ not in built and g_ not in {f"{x} is not None" for x in built}
                 and not g_.startswith(f"{tv_}.from_element(")]
        res.check(not stray, gv, "single `continue` in the validator loop", detail={"other_filters": stray},
                  reason="no validator class other than the two excluded is skipped")
    res.check(loop_ok, gv, "for validator_type in _all_subclasses(Validator)", reason="all validator classes are enumerated")
    res.check(excl == ["InstanceOf", "NoMatch"], gv, "if validator_type in (InstanceOf, NoMatch): continue",
              detail={"excluded": excl}, reason="exactly the two non-keyword validators are excluded")
    asub = ctx.func("_all_subclasses")
    res.judge(True if (has("MV_k.__subclasses__()", asub) and has("_all_subclasses(MV_c)", asub)) else None, asub, "transitive __subclasses__()",
              reason="implicit (indirect) subclasses are included")
    ev = ctx.cls("Element").props["validators"]["get"]
    # the returned list = the type validator + everything get_validators yields (display, +, extend, +=, unpacking)
    vev = view(ev, ctx.prog, keep=tuple(ev.locals())).body
    parts = []

    def contrib(e):
        if isinstance(e, ast.BinOp) and isinstance(e.op, ast.Add):
            contrib(e.left)
            contrib(e.right)
        elif isinstance(e, (ast.List, ast.Tuple)):
            for x in e.elts:
                parts.append(norm(x.value) + "*" if isinstance(x, ast.Starred) else norm(x))
        elif isinstance(e, ast.Call) and dotted(e.func) in ("list", "tuple") and len(e.args) == 1:
            parts.append(norm(e.args[0]) + "*")
        elif isinstance(e, ast.Name):
            for st in walk_own(vev):
                if isinstance(st, (ast.Assign, ast.AnnAssign)) and st.value is not None and \
                        any(isinstance(t, ast.Name) and t.id == e.id for t in (st.targets if isinstance(st, ast.Assign) else [st.target])):
                    contrib(st.value)
                if isinstance(st, ast.AugAssign) and isinstance(st.target, ast.Name) and st.target.id == e.id:
                    contrib(st.value)
                if isinstance(st, ast.Expr) and isinstance(st.value, ast.Call) and isinstance(st.value.func, ast.Attribute) \
                        and norm(st.value.func.value) == e.id and st.value.func.attr in ("extend", "append") and st.value.args:
                    parts.append(norm(st.value.args[0]) + ("*" if st.value.func.attr == "extend" else ""))
        else:
            parts.append("?" + norm(e)[:40])
    for pth in enumerate_paths(vev):
        if pth.exit == "return" and pth.exit_node.value is not None:
            contrib(pth.exit_node.value)
    sp_ = ev.self_param() or "self"
    want_parts = {f"{sp_}.type_validator", f"get_validators({sp_})*"}
    res.judge(True if set(parts) == want_parts else (None if any(x.startswith("?") for x in parts) or not parts else False), ev,
              "[self.type_validator] + list(get_validators(self))", detail={"parts": sorted(set(parts))},
              reason="type validator plus every keyword validator")
    # ObjectMeta.validators explicit list
    ov = ctx.cls("ObjectMeta").props["validators"]["get"]
    listed = set()
    has_type = False
    for n in walk_own(ov.body):
        if isinstance(n, ast.List):
            for e in n.elts:
                if norm(e) == "cls.type_validator":
                    has_type = True
                elif isinstance(e, ast.Call) and isinstance(e.func, ast.Attribute) and e.func.attr == "from_element" \
                        and norm(e.args[0]) == "cls":
                    listed.add(norm(e.func.value))
                elif isinstance(e, ast.Call) and isinstance(e.func, ast.Name) and e.args and "cls" in norm(e.args[0]):
                    listed.add(e.func.id)
    want = set()
    for c in subs:
        if c.name in ("InstanceOf", "NoMatch"):
            continue
        ts = class_types(c)
        if ts is None or (ts != "?" and "dict" in ts):
            want.add(c.name)
    res.check(has_type, ov, "cls.type_validator", reason="object classes check the value's type")
    res.check(listed == want, ov, "explicit validator list of ObjectMeta", detail={"listed": sorted(listed), "expected": sorted(want)},
              reason="the explicit list equals the validators that apply to objects or to every type")
    res.floor("validator_keywords", len(kv), 23)
    res.floor("validator_classes", len(subs), 24)
    # Nothing.validators = [NoMatch()]
    nv = ctx.cls("Nothing").props["validators"]["get"]
    res.judge(True if (has("return [NoMatch()]", nv)) else None, nv, "return [NoMatch()]", reason="the false schema rejects everything")


# ---------------------------------------------------------------------- T5
DRAFT6_INSTANCE_TYPES = {
    "minimum": ["float", "int"], "maximum": ["float", "int"], "exclusiveMinimum": ["float", "int"],
    "exclusiveMaximum": ["float", "int"], "multipleOf": ["float", "int"],
    "minLength": ["str"], "maxLength": ["str"], "pattern": ["str"], "format": ["str"],
    "items": ["list"], "additionalItems": ["list"], "minItems": ["list"], "maxItems": ["list"],
    "uniqueItems": ["list"], "contains": ["list"],
    "required": ["dict"], "__properties__": ["dict"], "minProperties": ["dict"], "maxProperties": ["dict"],
    "propertyNames": ["dict"], "dependencies": ["dict"],
    "const": None, "enum": None,
}
TYPE_VALIDATORS = {
    "String": ["str"], "Boolean": ["bool"], "Integer": ["int"], "Number": ["float", "int"],
    "Null": ["type(None)"], "Array": ["list"], "ObjectMeta": ["cls", "dict"], "Element": [],
}


@rule("T5", "each validator is type-guarded as Draft 6 prescribes for its keyword")
def t5(ctx, res):
    base, subs = validator_classes(ctx)
    n = 0
    for c in subs:
        for k in class_keywords(c) or []:
            n += 1
            if k not in DRAFT6_INSTANCE_TYPES:
                res.violation(c.qualname, f"keyword {k}", reason="keyword is not in the Draft-6 table of the checker")
                continue
            ts = class_types(c)
            res.check(ts == DRAFT6_INSTANCE_TYPES[k], c.qualname, f"types for {k}", detail={"types": ts, "draft6": DRAFT6_INSTANCE_TYPES[k]},
                      reason="Validator.types equals the instance type the keyword applies to")
    res.floor("keyword_type_guards", n, 23)
    for cname, want in TYPE_VALIDATORS.items():
        c = ctx.cls(cname)
        g = c.props.get("type_validator", {}).get("get")
        if g is None:
            raise AnalysisError(f"{cname}.type_validator vanished")
        got = None
        for x in walk_own(g.body):
            if isinstance(x, ast.Return) and isinstance(x.value, ast.Call) and dotted(x.value.func) == "InstanceOf":
                got = sorted(norm(a) for a in x.value.args)
        res.check(got == want, g, f"InstanceOf({', '.join(want)})", detail={"found": got},
                  reason="the element's type validator admits exactly the Python types of its JSON type")
    # Validator.__call__ guard and _is_instance bool rule (G2 lives in rules_g; here the table side)


# ---------------------------------------------------------------------- T6
DRAFT6_TYPE_NAMES = {"array": "Array", "boolean": "Boolean", "integer": "Integer", "null": "Null",
                     "number": "Number", "string": "String"}


def dict_display(expr):
    if not isinstance(expr, ast.Dict):
        return None
    return [(k, v) for k, v in zip(expr.keys, expr.values)]


@rule("T6", "parser and serializer tables are inverse / parallel")
def t6(ctx, res):
    ptab = dict_display(module_const(ctx, "statham/schema/parser.py", "_TYPE_MAPPING"))
    stab = dict_display(module_const(ctx, "statham/serializers/json.py", "_TYPE_MAPPING"))
    if ptab is None or stab is None:
        raise AnalysisError("_TYPE_MAPPING is no longer a dict display")
    p = {k.value: norm(v) for k, v in ptab if isinstance(k, ast.Constant)}
    s = {norm(k): v.value for k, v in stab if isinstance(v, ast.Constant)}
    for name, cls in DRAFT6_TYPE_NAMES.items():
        res.check(p.get(name) == cls, "statham/schema/parser.py::_TYPE_MAPPING", f"{name!r}: {cls}",
                  detail={"found": p.get(name)}, reason="Draft-6 type name maps to the element class of that type")
    for cls, name in sorted(s.items()):
        if name in ("object",):
            res.check(cls == "ObjectMeta", "statham/serializers/json.py::_TYPE_MAPPING", f"{cls}: {name!r}",
                      reason="object classes serialize as type object")
            continue
        res.check(p.get(name) == cls, "statham/serializers/json.py::_TYPE_MAPPING", f"{cls}: {name!r}",
                  detail={"parser": p.get(name)}, reason="serializer type name is the inverse of the parser's")
    res.check(set(s.values()) >= set(p) | {"object"}, "statham/serializers/json.py::_TYPE_MAPPING", "covers every parser type + object",
              detail={"serializer": sorted(s.values()), "parser": sorted(p)}, reason="every typed element class gets its type keyword back")
    pt = ctx.func("_parse_typed")
    tv, sc = pt.params[0].name, pt.params[1].name
    TYPE_EXPRS = (tv, f"{sc}['type']")

    def eval_t(e, A):
        ia = isinstance_atom(e)
        if ia and ia[0] == tv and ia[2]:
            kinds = set(ia[1])
            if kinds <= {"list", "str"}:
                return ("list" in kinds and A["LIST"]) or ("str" in kinds and A["STR"])
        c = cmp_atom(e)
        if c and c[1] in ("==", "!=") and c[0] in TYPE_EXPRS and c[2] in ("'object'", "'array'"):
            v_ = A["OBJ"] if c[2] == "'object'" else A["ARR"]
            return v_ if c[1] == "==" else (not v_)
        return None

    def lab_t(p):
        if p.exit == "raise":
            return "raise"
        e = ret_expr(p)
        if e is None:
            return p.exit
        for label, ptn in (("object", f"_parse_object({sc}, MV_st)"), ("array", f"_parse_array({sc}, MV_st)"),
                           ("multi", f"_parse_multi_typed({tv}, {sc}, MV_st)")):
            if match(_parse(ptn), e) is not None:
                return label
        if "_TYPE_MAPPING[" in norm(e) or any("_TYPE_MAPPING[" in norm(s_) for s_ in p.stmts if isinstance(s_, ast.AST)):
            return "table"
        return "other:" + norm(e)[:50]
    from .paths import decision_table_eval
    table, opaque = decision_table_eval(view(pt, ctx.prog).body, ["LIST", "STR", "OBJ", "ARR"], eval_t, lab_t)
    opaque = {o for o in opaque if "state" not in o}  # `state or _ParseState()` style conditions do not matter here
    bad = {}
    for (lst, st_, obj, arr), labels in table.items():
        if lst and st_ or obj and arr:
            continue
        if (obj or arr) and not st_:
            continue
        if lst:
            want_l = {"multi"}
        elif not st_:
            want_l = {"raise"}
        elif obj:
            want_l = {"object"}
        elif arr:
            want_l = {"array"}
        else:
            want_l = {"table"}
        if labels != want_l:
            bad[str((lst, st_, obj, arr))] = sorted(labels)
    unknown = bool(opaque) or any(x.startswith("other:") for v_ in bad.values() for x in v_)
    res.judge(True if not bad else (None if unknown else False), pt,
              "list -> _parse_multi_typed; 'object' -> _parse_object; 'array' -> _parse_array; other strings -> the type table; else error",
              detail={"mismatches": bad, "opaque": sorted(opaque)},
              reason="object, array and type lists are special-cased before the table lookup")
    ser = view(ctx.func("_serialize_element"), ctx.prog)
    res.judge(True if has("MV_s['type'] = _TYPE_MAPPING[type(MV_e)]", ser) else None, ser, "schema['type'] = _TYPE_MAPPING[type(element)]",
              reason="the type keyword is emitted for typed element classes")
    # _parse_object forwarded keys
    po = ctx.func("_parse_object")
    fwd = None
    vpo = view(po, ctx.prog).body
    for n in walk_own(vpo):
        if isinstance(n, ast.For):
            got = str_elts(deref_const(ctx, po, n.iter))
            if got is not None and any(name_of(b["MV_k"]) == norm(n.target) for _, b in find("MV_c[MV_k] = MV_s[MV_k]", n.body)):
                fwd = got
    if fwd is None:
        raise AnalysisError("_parse_object: forwarded keyword list not found")
    new_kw = set(kwonly(ctx.func("ObjectMeta.__new__")))
    has_ap = any(isinstance(x, ast.keyword) and x.arg == "additionalProperties" and has("MV_s['additionalProperties']", x.value)
                 for x in walk_own(vpo))
    got = set(fwd) | ({"additionalProperties"} if has_ap else set())
    res.check(got == new_kw - {"required"}, po, "forwarded class keywords", detail={"forwarded": sorted(got), "ObjectMeta.__new__": sorted(new_kw)},
              reason="every class keyword of ObjectMeta.__new__ except `required` (which flows through properties) is forwarded")
    # composition classes vs keywords
    comp = ctx.func("_parse_composition")
    n_comp = 0
    for n in walk_own(comp.body):
        if isinstance(n, ast.Call) and dotted(n.func) == "_compose_elements" and len(n.args) == 2:
            cls_name = norm(n.args[0])
            arg = n.args[1]
            key = None
            if isinstance(arg, ast.Subscript) and norm(arg.value) == "composition" and isinstance(arg.slice, ast.Constant):
                key = arg.slice.value
            if key is None:
                continue
            n_comp += 1
            c = ctx.cls(cls_name)
            g = c.lookup("mode")
            mode = g[1].value if g and g[0] == "const" and isinstance(g[1], ast.Constant) else None
            res.check(mode == key, comp, f"_compose_elements({cls_name}, composition[{key!r}])", detail={"mode": mode},
                      reason="the element class built for a composition keyword has that keyword as its mode")
    # everything that must be conjoined reaches the list given to _compose_elements(AllOf, ...)
    vcomp_all = view(comp, ctx.prog).body

    def contributions(name, seen=None):
        seen = seen or set()
        if name in seen:
            return []
        seen.add(name)
        out = []
        for n in walk_own(vcomp_all):
            if isinstance(n, (ast.Assign, ast.AnnAssign)):
                tg = n.targets if isinstance(n, ast.Assign) else [n.target]
                if any(isinstance(t, ast.Name) and t.id == name for t in tg) and n.value is not None:
                    out.append(n.value)
            if isinstance(n, ast.Call) and isinstance(n.func, ast.Attribute) and norm(n.func.value) == name \
                    and n.func.attr in ("append", "extend", "insert"):
                out += list(n.args)
            if isinstance(n, (ast.For, ast.comprehension)) and any(isinstance(x, ast.Name) and x.id == name for x in ast.walk(n.target)):
                out.append(n.iter)   # a loop variable stands for the members of what it iterates
        more = []
        for e in out:
            for x in ast.walk(e):
                if isinstance(x, ast.Name) and x.id in comp.locals() and x.id != name and x.id not in [p.name for p in comp.params]:
                    more += contributions(x.id, seen)
        return out + more
    parts = []
    for node, b in find("_compose_elements(AllOf, MV_l)", vcomp_all):
        for x in ast.walk(b["MV_l"]):
            if isinstance(x, ast.Name) and x.id in comp.locals():
                parts += contributions(x.id)
        parts.append(b["MV_l"])
    needles = {
        "the sibling keywords (base element)": ["parse_element(MV_o, MV_st)"],
        "allOf branches": ["MV_c['allOf']"],
        "the oneOf composition": ["_compose_elements(OneOf, MV_c['oneOf'])"],
        "the anyOf composition": ["_compose_elements(AnyOf, MV_c['anyOf'])"],
        "the negation": ["Not(parse_element(MV_s['not'], MV_st))"],
    }
    found_any_branch = any(any(has(pt, e) for e in parts for pt in needles[w_]) for w_ in
                           ("allOf branches", "the oneOf composition", "the anyOf composition"))
    for what, pats in needles.items():
        found = any(has(pt, e) for e in parts for pt in pats)
        # a missing contribution is a refutation only when the other branches are read in the recognised spelling
        res.judge(True if found else (None if (not parts or not found_any_branch) else False), comp, f"AllOf conjunction includes {what}",
                  reason="sibling keywords, allOf, oneOf, anyOf and not are all conjoined")
    res.judge(True if (has("_compose_elements(AllOf, MV__)", comp)) else None, comp, "_compose_elements(AllOf, ...)", reason="the conjunction is an AllOf")
    res.floor("composition_rows", n_comp, 2)
    # _compose_elements semantics
    ce = ctx.func("_compose_elements")
    et = ce.params[0].name
    vce = view(ce, ctx.prog).body
    coll = {ce.params[1].name, f"list({ce.params[1].name})"}
    for st in walk_own(view(ce, ctx.prog, keep=tuple(ce.locals())).body):
        if isinstance(st, (ast.Assign, ast.AnnAssign)) and st.value is not None and norm(st.value) in coll:
            tg = st.targets[0] if isinstance(st, ast.Assign) else st.target
            if isinstance(tg, ast.Name):
                coll.add(tg.id)
    import operator as _op
    OPS = {"==": _op.eq, "!=": _op.ne, "<": _op.lt, "<=": _op.le, ">": _op.gt, ">=": _op.ge}
    cases = {}
    opaque_c = set()
    for n_el in (0, 1, 2, 3):
        def ae(e, n_el=n_el):
            c = cmp_atom(e)
            if c and c[1] in OPS and isinstance(c[3], ast.Call) and dotted(c[3].func) == "len" and c[3].args \
                    and norm(c[3].args[0]) in coll and isinstance(c[4], ast.Constant) and isinstance(c[4].value, int):
                return OPS[c[1]](n_el, c[4].value)
            if norm(e) in coll:
                return n_el > 0
            opaque_c.add(norm(e))
            return None
        labels = set()
        for p_ in enumerate_paths(vce):
            feas = True
            for cnd in p_.conds:
                if isinstance(cnd[0], str):
                    continue
                val = eval3(cnd[0], ae)
                if val is not None and val != cnd[1]:
                    feas = False
                    break
            if not feas:
                continue
            e = ret_expr(p_)
            if e is None:
                labels.add(p_.exit)
            elif norm(e) == "Element()":
                labels.add("Element()")
            elif isinstance(e, ast.Subscript) and norm(e.value) in coll and norm(e.slice) == "0":
                labels.add("the element")
            elif isinstance(e, ast.Call) and norm(e.func) == et and len(e.args) == 1 and isinstance(e.args[0], ast.Starred) \
                    and norm(e.args[0].value) in coll and not e.keywords:
                labels.add("all")
            else:
                labels.add("other:" + norm(e)[:40])
        cases[n_el] = labels
    want_c = {0: {"Element()"}, 1: {"the element"}, 2: {"all"}, 3: {"all"}}
    unknown = bool(opaque_c) or any(x.startswith("other:") for v_ in cases.values() for x in v_)
    res.judge(True if cases == want_c else (None if unknown else False), ce,
              "0 -> Element(), 1 -> the element, n -> element_type(*elements)",
              detail={"cases": {str(k): sorted(v_) for k, v_ in cases.items()}, "opaque": sorted(opaque_c)},
              reason="no element is dropped when composing")
    # multi typed: every member
    mt = ctx.func("_parse_multi_typed")
    okm = None
    vmt = view(mt, ctx.prog).body
    tl = mt.params[0].name
    bmt = builders(vmt)
    for n in walk_own(vmt):
        if isinstance(n, ast.Call) and dotted(n.func) == "AnyOf":
            for a_ in n.args:
                if not isinstance(a_, ast.Starred):
                    continue
                srcs = [b_ for b_ in bmt if b_.node is a_.value or (isinstance(a_.value, ast.Name) and b_.name == a_.value.id)]
                for b_ in srcs:
                    typed_inline = ("'type': " + norm(b_.target)) in norm(b_.elt)
                    typed_store = False
                    if isinstance(b_.node, ast.For):
                        for node2, b2 in find("parse_element(MV_x, MV__)", b_.elt):
                            if isinstance(b2["MV_x"], ast.Name) and has(f"{b2['MV_x'].id}['type'] = {norm(b_.target)}", b_.node.body):
                                typed_store = True
                    good = not b_.guards and norm(b_.iter) == tl and (typed_inline or typed_store) \
                        and has("parse_element(MV__, MV__)", b_.elt)
                    okm = good if okm is None else (okm and good)
    res.judge(okm, mt, "AnyOf(*(parse_element({**schema, 'type': t}) for t in type_list))",
              reason="the AnyOf is built from EVERY member of the type list (no slice, no filter)")
    # required conservation
    pp = ctx.func("_parse_properties")
    okr = False
    for node, b in find("_Property(MV__, required=MV_k in MV_r, source=MV_k)", pp):
        rn = name_of(b["MV_r"])
        okr = has(f"{rn} = set(MV_s.get('required', MV__))", pp) or has(f"{rn} = MV_s.get('required', MV__)", pp)
    res.check(okr, pp, "_Property(..., required=key in required, source=key)",
              reason="a declared property is required iff its JSON name is in `required`, and records that JSON name")
    ok = None
    for b in builders(view(po, ctx.prog, keep=("properties",)).body):
        if b.kind != "dict" or not has("MV_s.get('required', MV__)", b.iter) or not isinstance(b.target, ast.Name):
            continue
        kn = b.target.id
        val_ok = match(_parse(f"_Property(Element(), required=True, source={kn})"), b.elt) is not None
        key_ok = b.key is not None and norm(b.key) == f"_parse_attribute_name({kn})"
        gt = b.guard_texts()
        guard_ok = len(gt) == 1 and (gt[0].startswith(f"not _parse_attribute_name({kn}) in ") or gt[0].startswith(f"_parse_attribute_name({kn}) not in "))
        ok = bool(val_ok and key_ok and guard_ok) if (val_ok or key_ok) else ok
    res.judge(ok, po, "synthetic required properties", reason="every required name without a declared property gets a synthetic "
                                                              "required property keyed by the same mapped name")
    # ... but its element must be what Draft 6 applies to an undeclared name: the matching patternProperties and
    # otherwise additionalProperties - not the accept-anything schema
    synth = [n for n in walk_own(view(po, ctx.prog).body) if isinstance(n, ast.Call) and dotted(n.func) == "_Property" and n.args
             and any(k.arg == "required" and norm(k.value) == "True" for k in n.keywords)]
    if synth:
        unconditional_any = all(norm(c.args[0]) == "Element()" for c in synth)
        consults = any("additionalProperties" in norm(c.args[0]) or "patternProperties" in norm(c.args[0]) or "additional" in norm(c.args[0])
                       for c in synth)
        res.judge(True if consults else (False if unconditional_any else None), po,
                  "_Property(Element(), required=True, source=key) for a required name without declaration",
                  reason="a name that is only listed in `required` becomes a DECLARED property with the accept-anything schema, so "
                         "additionalProperties / patternProperties no longer apply to it: {'type': 'object', 'required': ['a'], "
                         "'additionalProperties': false} accepts {'a': 1}, which Draft 6 rejects")



# ---------------------------------------------------------------------- T7
@rule("T7", "reserved attribute names cover the interpreter's and the model's own, and the suffix escapes them")
def t7(ctx, res):
    expr = module_const(ctx, "statham/schema/elements/meta.py", "RESERVED_PROPERTIES")
    src = norm(expr)
    res.check("dir(object)" in src, "statham/schema/elements/meta.py::RESERVED_PROPERTIES", "dir(object)", reason="object attributes are reserved")
    res.check("keyword.kwlist" in src, "statham/schema/elements/meta.py::RESERVED_PROPERTIES", "keyword.kwlist", reason="Python keywords are reserved")
    literals = [n.value for n in ast.walk(expr) if isinstance(n, ast.Constant) and isinstance(n.value, str)]
    init = ctx.func("Object.__init__")
    stored = set()
    for n in walk_own(init.body):
        if isinstance(n, (ast.Assign, ast.AnnAssign)):
            for t in (n.targets if isinstance(n, ast.Assign) else [n.target]):
                if isinstance(t, ast.Attribute) and norm(t.value) == "self":
                    stored.add(t.attr)
    for s in sorted(stored):
        res.check(s in literals, "statham/schema/elements/meta.py::RESERVED_PROPERTIES", f"{s!r}",
                  reason="an attribute Object.__init__ stores on the instance is reserved")
    reserved = set(dir(object)) | set(keyword.kwlist) | set(literals)
    bad = sorted(n for n in reserved if n + "_" in reserved)
    res.check(not bad, "statham/schema/elements/meta.py::RESERVED_PROPERTIES", "suffix closure", detail={"collisions": bad},
              reason="for every reserved name n, n + '_' is not reserved (interpreter fact, recomputed each run)")
    pan = ctx.func("_parse_attribute_name")
    res.judge(True if (has("MV_n in RESERVED_PROPERTIES", pan)) else None, pan, "if name in RESERVED_PROPERTIES", reason="the parser consults the reserved list")
    ocd = ctx.func("ObjectClassDict.__setitem__")
    res.judge(True if (has("MV_k in RESERVED_PROPERTIES", ocd)) else None, ocd, "key in RESERVED_PROPERTIES", reason="class bodies refuse reserved property names")
    res.floor("reserved_names", len(reserved), 60)


# ---------------------------------------------------------------------- T8
DOCUMENTED_UNSUPPORTED = {"if", "then", "else", "$defs", "unevaluatedItems", "unevaluatedProperties"}


@rule("T8", "the unsupported-keyword table covers the documented unsupported keywords")
def t8(ctx, res):
    expr = module_const(ctx, "statham/schema/constants.py", "UNSUPPORTED_SCHEMA_KEYWORDS")
    got = str_elts(expr)
    if got is None:
        raise AnalysisError("UNSUPPORTED_SCHEMA_KEYWORDS is no longer a literal set of strings")
    for k in sorted(DOCUMENTED_UNSUPPORTED):
        res.check(k in got, "statham/schema/constants.py::UNSUPPORTED_SCHEMA_KEYWORDS", f"{k!r}",
                  reason="a keyword statham documents as unsupported is in the refusal table")


# ---------------------------------------------------------------------- T9
@rule("T9", "copy constructors of Property forward every field")
def t9(ctx, res):
    c = ctx.cls("_Property")
    init = own_init(c)
    params = init.params[1:]
    for mname in ("clone", "evolve"):
        m = c.methods.get(mname)
        if m is None:
            raise AnalysisError(f"_Property.{mname} vanished")
        calls = [n for n in walk_own(view(m, ctx.prog).body) if isinstance(n, ast.Call) and dotted(n.func) in ("_Property", "type(self)", "self.__class__")]
        if not calls:
            res.unrecognised(m, "_Property(...)", reason="the copy constructor's construction call was not found")
            continue
        call = calls[0]
        passed = {}
        pos = [p for p in params if p.kind == "pos"]
        for i, a in enumerate(call.args):
            if i < len(pos):
                passed[pos[i].name] = a
        for k in call.keywords:
            if k.arg:
                passed[k.arg] = k.value
        for p in params:
            v = passed.get(p.name)
            res.check(v is not None and norm(v) == f"self.{p.name}", m, f"{p.name}=self.{p.name}",
                      detail={"found": norm(v) if v is not None else None},
                      reason=f"{mname}() passes `{p.name}` from the same-named attribute")


# --------------------------------------------------------------------- T10
@rule("T10", "every name an annotation can mention is a builtin or importable by the import inference")
def t10(ctx, res):
    import builtins
    names = set()
    n_getters = 0
    for c in ctx.prog.classes.values():
        for pn in ("annotation", "item_annotations"):
            g = c.props.get(pn, {}).get("get")
            if g is None:
                continue
            n_getters += 1
            body = g.body
            if body and isinstance(body[0], ast.Expr) and isinstance(body[0].value, ast.Constant):
                body = body[1:]  # docstring
            attr_names = {id(x.args[1]) for x in walk_own(body) if isinstance(x, ast.Call)
                          and dotted(x.func) in ("getattr", "hasattr", "setattr") and len(x.args) >= 2}
            for n in walk_own(body):
                if isinstance(n, ast.Constant) and isinstance(n.value, str) and id(n) not in attr_names:
                    names |= set(re.findall(r"[A-Za-z_][A-Za-z_0-9]*", n.value))
    # Generic arguments of typed leaf classes
    for c in element_family(ctx):
        for head, sl in c.generic_args:
            for n in ast.walk(sl):
                if isinstance(n, ast.Name):
                    r = ctx.prog.resolve_global(c.module, n.id)
                    if r and r[0] == "builtin":
                        names.add(n.id)
                    elif r and r[0] == "ext" and r[1].startswith("typing."):
                        names.add(n.id)
    names -= {"startswith"}
    std = ctx.func("_get_standard_imports")
    std_names = set()
    for n in walk_own(std.body):
        if isinstance(n, ast.Name) and isinstance(n.ctx, ast.Load):
            n = deref_const(ctx, std, n)  # the vocabulary tuple hoisted to module level
        got = str_elts(n) if isinstance(n, (ast.Tuple, ast.List)) else None
        if got:
            std_names |= set(got)
    st = ctx.func("_get_statham_imports")
    st_names = set()
    st_bodies = list(st.body)
    for site in ctx.inf.sites(st)[0]:
        c_ = getattr(site, "callee", None)
        if site.kind == "call" and c_ is not None and c_.module is st.module and c_.name.startswith("_") and c_.name not in ("_get_element_imports",):
            st_bodies += list(c_.body)
    for n in walk_own(st_bodies):
        if isinstance(n, (ast.If, ast.IfExp)) and isinstance(n.test, ast.Compare) and isinstance(n.test.ops[0], ast.In) \
                and isinstance(n.test.left, ast.Constant):
            branch = n.body if isinstance(n.body, list) else [n.body]
            imports = [x.value for b in branch for x in ast.walk(b) if isinstance(x, ast.Constant) and isinstance(x.value, str)]
            if any(f"import {n.test.left.value}" in s for s in imports):
                st_names.add(n.test.left.value)
    known = std_names | st_names
    for nm in sorted(names):
        is_builtin = hasattr(builtins, nm)
        res.check(is_builtin or nm in known, "statham/serializers/python.py::_get_imports", f"annotation name {nm}",
                  detail={"importable": sorted(known)},
                  reason="a name that can occur in a generated annotation is a builtin or has an import rule")
    res.check("Property" in st_names, st, "'Property' in declaration -> import Property", reason="generated property lines use Property(...)")
    res.floor("annotation_getters", n_getters, 8)
    res.floor("annotation_vocabulary", len(names), 5)
    # element classes are imported by discovery through get_children (T3a) from statham.schema.elements
    gi = ctx.func("_get_single_element_imports")
    res.judge(True if (has("get_children(MV_e)", gi)) else None, gi, "get_children(element)", reason="element imports are discovered by walking every position")
    exported = set()
    mod = ctx.prog.modules.get("statham.schema.elements")
    if mod is None:
        raise AnalysisError("statham.schema.elements vanished")
    exported = set(mod.imports)
    fam = {c.name for c in element_family(ctx) if not c.name.startswith("_") and c.name not in ("ObjectMeta", "NumericElement")}
    missing = sorted(fam - exported - {"Element"} - {"Object"}) if "Element" in exported else sorted(fam - exported)
    res.check(not missing, "statham/schema/elements/__init__.py::<module>", "exports every public element class",
              detail={"missing": missing}, reason="`from statham.schema.elements import X` works for every class repr can print")


# --------------------------------------------------------------------- T11
@rule("T11", "schema regular expressions are searched unanchored")
def t11(ctx, res):
    for short, needle in (("Pattern._validate", "self.params['pattern']"), ("PatternDict.getall", "pattern")):
        f = ctx.func(short)
        calls = [n for n in walk_own(f.body) if isinstance(n, ast.Call) and (dotted(n.func) or "").startswith("re.")]
        if not calls:
            res.violation(f, "re.search(...)", reason="the regular expression is no longer applied with the re module")
            continue
        for c in calls:
            res.check(dotted(c.func) == "re.search" and c.args and norm(c.args[0]) == needle, f, c,
                      reason="Draft 6 patterns are not implicitly anchored: re.search, not match/fullmatch")


# --------------------------------------------------------------------- T12
@rule("T12", "a parsed object class is reused iff an equal class with the same title was seen before")
def t12(ctx, res):
    dd = ctx.func("_ParseState.dedupe")
    o = dd.params[1].name
    vb = view(dd, ctx.prog).body
    loops = [n for n in walk_own(vb) if isinstance(n, ast.For)]
    verdict = None
    detail = {}
    if len(loops) == 1:
        lp = loops[0]
        e = norm(lp.target)
        from .norm import text_resolver
        R = text_resolver(vb)
        it_ok = R(lp.iter) == f"self.seen[{o}.__name__]"
        paths = [p for p in __import__("sa.paths", fromlist=["enumerate_paths"]).enumerate_paths(lp.body) if p.exit == "return"]
        detail["returns"] = [(" and ".join(norm(t) for t, pol in p.conds if not isinstance(t, str)), norm(p.exit_node.value)) for p in paths]
        if it_ok and len(paths) == 1 and norm(paths[0].exit_node.value) == e:
            conds = [(t, pol) for t, pol in paths[0].conds if not isinstance(t, str)]
            if len(conds) == 1 and conds[0][1] and isinstance(conds[0][0], ast.Compare) and len(conds[0][0].ops) == 1 \
                    and isinstance(conds[0][0].ops[0], ast.Eq) and {norm(conds[0][0].left), norm(conds[0][0].comparators[0])} == {o, e}:
                verdict = True
            else:
                verdict = False
        elif it_ok and not paths:
            verdict = False
    if not loops:
        # the same scan written as next((e for e in seen if o == e), None), tested against None and returned
        from .norm import text_resolver
        R = text_resolver(vb)
        for ret in [x for x in walk_own(vb) if isinstance(x, ast.Return) and isinstance(x.value, ast.Call) and dotted(x.value.func) == "next"]:
            nx = ret.value
            if not (len(nx.args) == 2 and isinstance(nx.args[0], ast.GeneratorExp) and len(nx.args[0].generators) == 1
                    and isinstance(nx.args[1], ast.Constant) and nx.args[1].value is None):
                continue
            g_ = nx.args[0].generators[0]
            e = norm(g_.target)
            guarded = any(cmp_atom(t, pol) and cmp_atom(t, pol)[0] == norm(nx) and cmp_atom(t, pol)[1] == "is not" and cmp_atom(t, pol)[2] == "None"
                          for t, pol in flat_guards(Parents(vb), ret))
            if R(g_.iter) != f"self.seen[{o}.__name__]" or norm(nx.args[0].elt) != e or not guarded:
                continue
            detail["scan"] = norm(nx)[:120]
            ok_if = len(g_.ifs) == 1 and isinstance(g_.ifs[0], ast.Compare) and len(g_.ifs[0].ops) == 1 and isinstance(g_.ifs[0].ops[0], ast.Eq) \
                and {norm(g_.ifs[0].left), norm(g_.ifs[0].comparators[0])} == {o, e}
            verdict = True if ok_if else False
    res.judge(verdict, dd, "for existing in self.seen[name]: if object_type == existing: return existing", detail=detail,
              reason="every earlier class of the same title is compared by (structural) equality alone - an extra "
                     "pre-filter or a narrower scan creates duplicate classes for one object schema")
    from .norm import text_resolver
    R = text_resolver(vb)
    rec_ok = any(isinstance(x, ast.Call) and isinstance(x.func, ast.Attribute) and x.func.attr == "append"
                 and R(x.func.value) == f"self.seen[{o}.__name__]" and x.args and norm(x.args[0]) == o for x in walk_own(vb)) \
        and has(f"return {o}", vb)
    res.judge(True if rec_ok else None, dd, "new classes are recorded under their title and returned", reason="later occurrences can find them")


# --------------------------------------------------------------------- T13
EQUALITY_DEDUPERS = ("remove_duplicates", "set", "frozenset", "dict.fromkeys", "OrderedDict.fromkeys", "unique")


@rule("T13", "collections of elements / object classes are never de-duplicated or searched by structural equality")
def t13(ctx, res):
    inf = ctx.inf
    n = 0
    element = ctx.cls("Element")
    for short in ("get_children", "get_object_classes", "orderer", "serialize_json", "_get_path", "serialize_python",
                  "_get_single_element_imports", "_compose_elements", "_parse_composition", "_parse_multi_typed",
                  "_parse_items", "_parse_properties", "parse"):
        f = ctx.func(short)
        funcs = [f] + list(f.nested.values())
        for g in funcs:
            for node in walk_own(g.body):
                if isinstance(node, ast.Call) and (dotted(node.func) in EQUALITY_DEDUPERS) and node.args:
                    n += 1
                    arg = node.args[0]
                    ets = inf.elem_type_of(arg, g) | inf.type_of(arg, g)
                    holds_elements = any(t[0] in ("inst", "cls") and element in t[1].mro for t in ets)
                    mapped = isinstance(arg, ast.Call) and dotted(arg.func) == "map"
                    if dotted(node.func) in ("set", "frozenset") and (mapped or not holds_elements):
                        res.ok(g, node, reason="a set of non-element values (ids, types, names)")
                        continue
                    res.check(not holds_elements and not _mentions_elements(arg), g, node,
                              reason="equality of object classes ignores their names: two same-shaped classes with different "
                                     "names would be merged, and one of them would vanish from the order / the definitions")
                elif isinstance(node, ast.Compare) and any(isinstance(o, (ast.In, ast.NotIn)) for o in node.ops):
                    right = node.comparators[0]
                    ets = inf.elem_type_of(right, g)
                    if any(t[0] in ("inst", "cls") and element in t[1].mro for t in ets):
                        n += 1
                        res.violation(g, node, reason="membership among elements is decided by structural equality, which ignores class names")
    res.stat("equality_based_operations", n)


def _mentions_elements(e):
    t = norm(e)
    return any(w in t for w in ("children", "object_classes", "get_children(", "get_object_classes(", "elements", "all_of",
                                "parse_element("))


# --------------------------------------------------------------------- T14
@rule("T14", "one parse state is threaded through every recursive parser call")
def t14(ctx, res):
    parser = ctx.prog.by_relpath.get("statham/schema/parser.py")
    inf = ctx.inf
    n = 0
    for f in sorted(parser.funcs.values(), key=lambda f: f.qualname):
        scopes = [f] + list(f.nested.values()) + f.lambdas
        for g in scopes:
            has_state = "state" in g.locals() or (g.parent is not None and "state" in g.parent.locals())
            if not has_state:
                continue
            seen_nodes = set()
            for s in inf.sites(g)[0]:
                callee = s.callee
                target = callee
                if callee.short == "reraise._decorator._wrapper":
                    target = ctx.func("parse_element")
                if target.module is not parser or target.param("state") is None or s.kind != "call":
                    continue
                if id(s.node) in seen_nodes:
                    continue
                seen_nodes.add(id(s.node))
                n += 1
                call = s.node
                passed = None
                pos = [p.name for p in target.params if p.kind in ("pos", "posonly")]
                if isinstance(call, ast.Call):
                    if "state" in pos and pos.index("state") < len(call.args):
                        passed = call.args[pos.index("state")]
                    for k in call.keywords:
                        if k.arg == "state":
                            passed = k.value
                def denotes_state(e, scope, depth=0):
                    """the caller's own parse state: the `state` parameter, or a local bound only from it
                    (`x = state`, `x = state or _ParseState()`)"""
                    if e is None or depth > 4:
                        return False
                    if norm(e) == "state":
                        return True
                    if isinstance(e, ast.BoolOp) and isinstance(e.op, ast.Or) and len(e.values) == 2 \
                            and norm(e.values[1]) == "_ParseState()":
                        return denotes_state(e.values[0], scope, depth + 1)
                    if isinstance(e, ast.Name):
                        sc = scope
                        while sc is not None:
                            if e.id in sc.locals():
                                binds = inf.bindings(sc).get(e.id, [])
                                return bool(binds) and all(
                                    (b[0] == "assign" and denotes_state(b[1], sc, depth + 1))
                                    or (b[0] == "param" and b[1].annotation is not None and norm(b[1].annotation) == "_ParseState")
                                    for b in binds)
                            sc = sc.parent
                    return False
                res.check(passed is not None and denotes_state(passed, g), g, call if isinstance(call, ast.AST) else str(call),
                          reason="the caller's parse state is passed on: a call that omits it de-duplicates and names its object "
                                 "classes against a private, empty state (duplicate class names in one document)")
    res.floor("recursive_parser_calls", n, 20)
    p = ctx.func("parse")
    res.check(has("MV_s = _ParseState()", p) and len(find("parse_element(MV_x, MV_s)", p)) >= 2, p, "state = _ParseState(); shared by root and definitions",
              reason="root and definitions share one state")


# --------------------------------------------------------------------- T15
@rule("T15", "every object class that can be the target of a $ref is emitted under definitions")
def t15(ctx, res):
    sj = ctx.func("serialize_json")
    sr = ctx.func("_serialize_recursive")
    emits_ref = has("{'$ref': MV__}", sr) and has("isinstance(MV_d, ObjectMeta) and MV_o", sr)
    res.judge(True if emits_ref else None, sr, "object classes are emitted as {'$ref': '#/definitions/<name>'}",
              reason="references are produced for every nested object class")
    vb = view(sj, ctx.prog, keep=("object_classes", "primary")).body
    verdict = None
    detail = {}
    for b in builders(vb):
        if b.kind != "dict" or "object_classes" not in norm(b.iter) and "get_object_classes" not in norm(b.iter):
            continue
        if b.key is None or "__name__" not in norm(b.key):
            continue
        gt = b.guard_texts()
        detail["filters"] = gt
        if not gt:
            verdict = True
        else:
            excl = [g for g in gt if "primary" in g or "elements[0]" in g]
            if len(gt) == 1 and excl and (" or " in gt[0] or "any(" in gt[0] or " in " in gt[0].replace(" is not ", " ")):
                verdict = True   # the root is dropped only when nothing refers to it
            elif excl:
                verdict = False
            else:
                verdict = None
    # caller-supplied definitions are serialized with references too: the classes THEY reach must be collected as well
    dparam = next((p_.name for p_ in sj.params if p_.name == "definitions"), None)
    if dparam is not None:
        serialized_defs = any(norm(b.iter) in (f"{dparam}.items()", f"{dparam}.values()") for b in builders(vb))
        collected = [norm(a) for n_ in walk_own(sj.body) if isinstance(n_, ast.Call) and dotted(n_.func) == "get_object_classes"
                     for a in n_.args]
        tainted = {dparam}
        for _ in range(3):
            for n_ in walk_own(sj.body):
                # statement-level loops only: comprehension variables are scoped and often re-use a name
                if isinstance(n_, ast.For) and any(isinstance(x, ast.Name) and x.id in tainted for x in ast.walk(n_.iter)):
                    tainted |= {x.id for x in ast.walk(n_.target) if isinstance(x, ast.Name)}
        covers = any(isinstance(x, ast.Name) and x.id in tainted for n_ in walk_own(sj.body)
                     if isinstance(n_, ast.Call) and dotted(n_.func) == "get_object_classes" for a in n_.args for x in ast.walk(a))
        res.judge(True if (covers or not serialized_defs) else (False if collected else None), sj,
                  "get_object_classes(*elements, *definitions.values())", detail={"collected_from": collected},
                  reason="an element passed in `definitions` is serialized with '$ref's to the object classes it contains, but "
                         "classes are only collected from the roots: serialize_json(Root, definitions={'Foo': Some}) with "
                         "Some.o: Other emits a dangling '#/definitions/Other'")
    # ... and "nothing refers to the first root" must look at the supplied definitions as well
    if dparam is not None and verdict is True and detail.get("filters") and serialized_defs:
        vfull = view(sj, ctx.prog).body
        sees_defs = False
        found_ref_iter = False
        for b in builders(vfull):
            if b.kind != "dict" or b.key is None or "__name__" not in norm(b.key):
                continue
            for t_, pol_ in b.guards:
                for x in ast.walk(t_):
                    if isinstance(x, ast.comprehension):
                        found_ref_iter = True
                        if any(isinstance(y, ast.Name) and y.id in tainted for y in ast.walk(x.iter)):
                            sees_defs = True
                    if isinstance(x, ast.Name) and isinstance(x.ctx, ast.Load):
                        # a collection kept in a local (not inlined because it is extended afterwards)
                        for n_ in walk_own(sj.body):
                            tgt_ = None
                            if isinstance(n_, ast.AugAssign) and isinstance(n_.target, ast.Name):
                                tgt_, val_ = n_.target.id, n_.value
                            elif isinstance(n_, ast.Call) and isinstance(n_.func, ast.Attribute) and n_.func.attr in ("extend", "append") \
                                    and isinstance(n_.func.value, ast.Name):
                                tgt_, val_ = n_.func.value.id, n_
                            elif isinstance(n_, (ast.Assign, ast.AnnAssign)) and n_.value is not None:
                                t0_ = n_.targets[0] if isinstance(n_, ast.Assign) else n_.target
                                if isinstance(t0_, ast.Name):
                                    tgt_, val_ = t0_.id, n_.value
                            if tgt_ == x.id:
                                found_ref_iter = True
                                if any(isinstance(y, ast.Name) and y.id in tainted for y in ast.walk(val_)):
                                    sees_defs = True
        res.judge(True if sees_defs else (False if found_ref_iter else None), sj,
                  "referenced = children of the roots AND of the supplied definitions",
                  reason="the first root is left out of `definitions` when no ROOT refers to it, but a supplied definition may: "
                         "serialize_json(A, definitions={'lst': Array(A)}) emits '#/definitions/A' without defining A")
    res.judge(verdict, sj, "definitions = {cls.__name__: ... for every reachable object class}", detail=detail,
              reason="the first root is left out of `definitions` unconditionally, but another root may refer to it "
                     "(serialize_json(A, B) with B.a: A emits a dangling '#/definitions/A')")


@rule("T16", "a caller-supplied definition cannot replace the definition of an object class")
def t16(ctx, res):
    sj = ctx.func("serialize_json")
    dparam = next((p_.name for p_ in sj.params if p_.name == "definitions"), None)
    if dparam is None:
        raise AnalysisError("serialize_json no longer takes `definitions`")
    merges = []
    for n in walk_own(sj.body):
        if isinstance(n, ast.Call) and isinstance(n.func, ast.Attribute) and n.func.attr == "update" and "definitions" in norm(n.func.value) \
                and any(dparam in norm(a) for a in n.args):
            merges.append(n)
        if isinstance(n, ast.Assign) and any(isinstance(t, ast.Subscript) and "definitions" in norm(t.value) for t in n.targets) \
                and any(isinstance(x, ast.Name) and x.id == dparam for x in ast.walk(n)):
            merges.append(n)
    vb = view(sj, ctx.prog, keep=tuple(sj.locals())).body
    for b in builders(vb):
        if b.kind == "dict" and norm(b.iter).startswith(dparam + ".") and b.name and "definitions" in b.name:
            merges.append(b.node)
    # a clash test: membership of a caller key among the class names (or the reverse), or a set intersection
    guarded = False
    for n in walk_own(sj.body):
        if isinstance(n, ast.Compare) and any(isinstance(o, (ast.In, ast.NotIn)) for o in n.ops) and \
                ("definitions" in norm(n) and ("__name__" in norm(n) or "key" in norm(n.left))):
            guarded = True
        if isinstance(n, ast.BinOp) and isinstance(n.op, ast.BitAnd) and dparam in norm(n):
            guarded = True
    res.judge(True if (guarded or not merges) else False, sj, "schema['definitions'].update({key: serialize(element) ...})",
              detail={"merges": [norm(m)[:80] for m in merges]},
              reason="caller-supplied definitions are merged into the same mapping as the object classes, keyed by caller-chosen "
                     "names, with no clash test: serialize_json(Outer, definitions={'Inner': Integer()}) replaces the class "
                     "Inner that '#/definitions/Inner' refers to")


@rule("T17", "the false schema can be serialized as a root")
def t17(ctx, res):
    sj = ctx.func("serialize_json")
    se = ctx.func("_serialize_element")
    non_mapping = [norm(r.value) for r in walk_own(se.body) if isinstance(r, ast.Return) and isinstance(r.value, ast.Constant)]
    spreads = [n for n in walk_own(view(sj, ctx.prog).body) if isinstance(n, ast.Dict) and any(k is None for k in n.keys)]
    spread_of_root = any(k is None and ("_serialize_element" in norm(v) or "serialize(" in norm(v)) for n in spreads
                         for k, v in zip(n.keys, n.values))
    guarded = any(isinstance(n, ast.Call) and dotted(n.func) == "isinstance" and "Nothing" in norm(n) for n in walk_own(sj.body))
    res.judge(True if (not non_mapping or not spread_of_root or guarded) else False, sj, "{**serialize(primary), 'definitions': ...}",
              detail={"non_mapping_returns_of__serialize_element": non_mapping},
              reason="_serialize_element answers the false schema with the constant False, which serialize_json spreads into a "
                     "mapping: serialize_json(Nothing()) raises TypeError instead of yielding a document")


# ---------------------------------------------------------------------- T18
NAMESPACE_READ_HOOKS = ("__missing__", "__getitem__", "get", "__contains__", "__getattribute__", "__getattr__")


@rule("T18", "a class body reads back only what it bound: declared properties are kept out of the class namespace")
def t18(ctx, res):
    """Generated class bodies are sequences of `name = Property(<element expression>)`; the element expressions name
    other generated classes and imported element types.  Property names are arbitrary identifiers (they come from JSON
    names), so the namespace `__prepare__` returns must not answer a name look-up with a property declared earlier:
    the expression would then see the property object instead of the module-level class."""
    prep = ctx.func("ObjectMeta.__prepare__")
    made = [n for n in walk_own(prep.body) if isinstance(n, ast.Call) and dotted(n.func) == "ObjectClassDict"]
    if not made:
        res.unrecognised(prep, "return ObjectClassDict()", reason="the namespace class of model bodies was not recognised")
        return
    res.ok(prep, "ObjectClassDict()", reason="model class bodies execute in an ObjectClassDict")
    c = ctx.cls("ObjectClassDict")
    hooks = 0
    for hname in NAMESPACE_READ_HOOKS:
        m = c.methods.get(hname)
        if m is None:
            res.ok("statham/schema/elements/meta.py::ObjectClassDict", f"no {hname}",
                   reason="name look-ups in a class body fall through to the enclosing module for anything not bound as a plain value")
            continue
        hooks += 1
        reads_props = any(isinstance(n, ast.Attribute) and n.attr == "properties" for n in walk_own(m.body))
        res.judge(False if reads_props else None, m, f"{hname} answers from self.properties" if reads_props else hname,
                  reason="a look-up hook on the class namespace answers a name with a declared property: a later statement of a "
                         "generated body that names a class or import spelled like an earlier property (e.g. a property `Address` "
                         "followed by `other = Property(Address)`) gets the property object, so the generated module differs "
                         "from the parsed model or fails to execute")
    st = c.methods.get("__setitem__")
    if st is None:
        raise AnalysisError("ObjectClassDict.__setitem__ vanished")
    # every path that reaches the plain dict store has excluded property values
    stored_plain = 0
    for p in enumerate_paths(view(st, ctx.prog).body):
        txts = [norm(s) for s in p.stmts if isinstance(s, ast.AST)]
        if p.exit_node is not None:
            txts.append(norm(p.exit_node))
        if not any("super().__setitem__" in t or "dict.__setitem__" in t for t in txts):
            continue
        stored_plain += 1
        guards = []

        def atoms(t, pol):
            # only what a path condition entails: (a and b) true -> both true; (a or b) false -> both false
            if isinstance(t, str):
                return
            if isinstance(t, ast.UnaryOp) and isinstance(t.op, ast.Not):
                atoms(t.operand, not pol)
            elif isinstance(t, ast.BoolOp) and ((isinstance(t.op, ast.And) and pol) or (isinstance(t.op, ast.Or) and not pol)):
                for v_ in t.values:
                    atoms(v_, pol)
            elif not isinstance(t, ast.BoolOp):
                guards.append((norm(t), pol))
        for g, pol in p.conds:
            atoms(g, pol)
        excluded = any(("isinstance" in a and "_Property" in a and pl is False) for a, pl in guards)
        res.judge(True if excluded else False, st, "plain values only reach dict.__setitem__",
                  detail={"guards": [f"{a} is {pl}" for a, pl in guards[:6]]},
                  reason="a property value stored in the namespace proper is found again by later statements of the class body")
    res.floor("namespace_plain_store_paths", stored_plain, 1)
    res.stat("read_hooks_defined", hooks)
