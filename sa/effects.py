"""E5 - ownership / effect analysis.

Abstract value  Val(own, cont): `own` = who owns the object itself, `cont` =
who owns what it (transitively) contains.  Atoms:
  "F"            allocated in this activation (fresh)
  ("P", f, i)    parameter i of function f (the object passed)
  ("P*", f, i)   something reachable from parameter i of f
  "G"            module / class level (shared, global)
The empty set means an immutable value.

Per function summaries (least fixed point over the call graph):
  ret[f]     Val of the returned value
  stores[f]  param index -> atoms stored into fields / contents of that param
  mut[f]     origin -> atoms written (origin = a concrete write construct)
"""
import ast

from .model import Func, dotted, walk_own, norm, AnalysisError

F = "F"
G = "G"
EMPTY = frozenset()

MUTATORS = {
    "append", "extend", "insert", "update", "add", "pop", "remove", "clear", "setdefault", "sort",
    "reverse", "popitem", "discard", "__setitem__", "__delitem__", "__setattr__", "__delattr__",
    "appendleft", "extendleft", "popleft", "move_to_end", "difference_update", "intersection_update",
    "symmetric_difference_update", "__iadd__", "__ior__",
}
# mutators whose argument's *elements* flow into the receiver
SPREAD_MUTATORS = {"extend", "update", "extendleft"}
PROCESS_STATE_MUTATORS = {
    "warnings.simplefilter", "warnings.filterwarnings", "warnings.resetwarnings", "warnings.catch_warnings",
    "simplefilter", "filterwarnings", "resetwarnings", "catch_warnings",
    "locale.setlocale", "setlocale", "sys.setrecursionlimit", "setrecursionlimit", "sys.set_int_max_str_digits",
    "random.seed", "os.chdir", "os.putenv", "os.umask", "decimal.setcontext", "setcontext", "decimal.localcontext",
    "socket.setdefaulttimeout", "time.tzset", "gc.disable", "gc.enable", "sys.setswitchinterval", "sys.settrace", "sys.setprofile",
}
PURE_BUILTINS = {
    "len", "isinstance", "issubclass", "repr", "str", "int", "float", "bool", "hash", "id", "callable",
    "hasattr", "any", "all", "sum", "min", "max", "abs", "round", "ord", "chr", "print", "format",
    "divmod", "pow", "bytes",
}
FRESH_CONTAINER_BUILTINS = {
    "list", "dict", "set", "tuple", "frozenset", "sorted", "zip", "map", "filter", "enumerate",
    "reversed", "iter", "range",
}
IMMUTABLE_B = {"str", "int", "float", "bool", "none", "bytes", "NoneType", "complex", "ellipsis"}


class Val:
    __slots__ = ("own", "cont")

    def __init__(self, own=EMPTY, cont=EMPTY):
        self.own = frozenset(own)
        self.cont = frozenset(cont)

    def join(self, other):
        return Val(self.own | other.own, self.cont | other.cont)

    def __eq__(self, other):
        return self.own == other.own and self.cont == other.cont

    def __hash__(self):
        return hash((self.own, self.cont))

    def all(self):
        return self.own | self.cont

    def __repr__(self):
        return f"Val(own={fmt_atoms(self.own)}, cont={fmt_atoms(self.cont)})"


IMM = Val()
FRESHV = Val({F}, EMPTY)
GLOBV = Val({G}, {G})


def fmt_atom(a):
    if isinstance(a, tuple):
        f, i = a[1], a[2]
        name = f.params[i].name if i < len(f.params) else str(i)
        star = "*" if a[0] == "P*" else ""
        return f"{star}{f.short}:{name}"
    return a


def fmt_atoms(s):
    return "{" + ", ".join(sorted(fmt_atom(a) for a in s)) + "}"


def deref(atoms):
    out = set()
    for a in atoms:
        if isinstance(a, tuple) and a[0] == "P":
            out.add(("P*", a[1], a[2]))
        else:
            out.add(a)
    return frozenset(out)


def elem(v):
    return Val(v.cont, deref(v.cont))


def joinall(vals):
    own, cont = set(), set()
    for v in vals:
        own |= v.own
        cont |= v.cont
    return Val(own, cont)


class Origin:
    """A concrete write construct."""
    __slots__ = ("func", "node", "what", "target", "callee", "site")

    def __init__(self, func, node, what, target):
        self.callee = None
        self.site = None
        self.func = func
        self.node = node
        self.what = what  # store | del | augassign | mutator | setattr | alias
        self.target = target  # normalised target text

    def key(self):
        return (self.func.qualname, norm(self.node))

    def __repr__(self):
        return f"<Origin {self.func.short} :: {norm(self.node)}>"


class Effects:
    def __init__(self, ctx, primitives=None):
        self.ctx = ctx
        # primitive mutators: Func -> set of param indexes; a call to one is
        # itself the write construct (origin = the call site), so that each
        # entry into it is judged separately.
        self.primitives = primitives or {}
        self.prog = ctx.prog
        self.inf = ctx.inf
        self.funcs = self.prog.all_funcs()
        self.ret = {f: IMM for f in self.funcs}
        self.stores = {f: {} for f in self.funcs}
        self.mut = {f: {} for f in self.funcs}  # origin -> set(atoms)
        self.via = {}  # (f, origin, atom) -> (site, callee_atom) | None (direct)
        self.origins = {}  # key -> Origin
        self.owned_fields = set()
        self.all_field_names = set()
        self.imm_classes = self._immutable_classes()
        self._env_cache = {}
        self._val_cache = {}
        self._active = set()
        self.rounds = 0
        self._solve()

    # ---------------------------------------------------------------- setup
    def _immutable_classes(self):
        """Repo classes whose instances carry no mutable state: no attribute
        store on an instance anywhere in their methods, no container base."""
        out = set()
        for c in self.prog.classes.values():
            if any(b in ("dict", "list", "set", "typing.Dict", "typing.List", "type") for b in c.ext_bases()):
                continue
            stores = False
            for k in c.mro:
                for m in list(k.methods.values()) + [p.get("set") for p in k.props.values() if p.get("set")]:
                    sp = m.self_param()
                    if not sp or m.kind == "classmethod" or m.name == "__new__":
                        continue
                    for n in walk_own(m.body):
                        if isinstance(n, ast.Attribute) and isinstance(n.ctx, (ast.Store, ast.Del)):
                            if isinstance(n.value, ast.Name) and n.value.id == sp:
                                stores = True
            if not stores:
                out.add(c)
        return out

    def _solve(self):
        # owned fields: pessimistic start, grow
        for outer in range(4):
            changed_fields = False
            self._iterate()
            owned = self._compute_owned_fields()
            if owned != self.owned_fields:
                self.owned_fields = owned
                changed_fields = True
            if not changed_fields:
                break

    def _iterate(self):
        for f in self.funcs:
            self.ret[f] = IMM
            self.stores[f] = {}
            self.mut[f] = {}
        self.via = {}
        for rnd in range(40):
            self.rounds += 1
            self._env_cache = {}
            self._val_cache = {}
            changed = False
            for f in self.funcs:
                if self._analyse(f):
                    changed = True
            if not changed:
                return
        raise AnalysisError("effect analysis did not reach a fixed point in 40 rounds")

    def _compute_owned_fields(self):
        """Field names every store to which (anywhere) has a fresh RHS."""
        stores = {}
        for f in self.funcs:
            for n in walk_own(f.body):
                targets = []
                if isinstance(n, ast.Assign):
                    targets = [(t, n.value) for t in n.targets]
                elif isinstance(n, ast.AnnAssign) and n.value is not None:
                    targets = [(n.target, n.value)]
                elif isinstance(n, ast.AugAssign):
                    targets = [(n.target, n.value)]
                for t, v in targets:
                    if isinstance(t, ast.Attribute):
                        val = self.val(v, f)
                        stores.setdefault(t.attr, []).append(val)
                if isinstance(n, ast.Call) and dotted(n.func) == "setattr":
                    stores.setdefault("<setattr>", []).append(GLOBV)
        self.all_field_names = set(stores)
        owned = set()
        for name, vals in stores.items():
            if all(v.own <= {F} and v.own for v in vals):
                owned.add(name)
        if "<setattr>" in stores:
            pass  # computed stores do not name a field; they never make a field owned
        return owned

    # ------------------------------------------------------------ per func
    def _analyse(self, f):
        changed = False
        # return value
        rets = []
        is_gen = False
        for n in walk_own(f.body):
            if isinstance(n, ast.Return) and n.value is not None:
                rets.append(self.val(n.value, f))
            elif isinstance(n, ast.Yield) and n.value is not None:
                is_gen = True
                v = self.val(n.value, f)
                rets.append(Val({F}, v.own | v.cont))
            elif isinstance(n, ast.YieldFrom):
                is_gen = True
                v = self.val(n.value, f)
                rets.append(Val({F}, v.cont))
        r = joinall(rets)
        if f.name == "__init__":
            r = IMM
        joined = self.ret[f].join(r)
        if joined != self.ret[f]:
            self.ret[f] = joined
            changed = True
        # writes and stores
        for origin, atoms, stored in self._direct_writes(f):
            atoms = frozenset(a for a in atoms if a != F)
            if self._add_mut(f, origin, atoms, None):
                changed = True
        for idx, atoms in self._direct_stores(f).items():
            cur = self.stores[f].get(idx, frozenset())
            new = cur | atoms
            if new != cur:
                self.stores[f][idx] = new
                changed = True
        # calls
        sites, _ = self.inf.sites(f)
        for s in sites:
            g = s.callee
            prim = self.primitives.get(g)
            if prim:
                for idx in prim:
                    tr = self.subst(s, {("P", g, idx)}, f)
                    tr = frozenset(x for x in tr if x != F)
                    o = self._origin(f, s.node, "primitive", norm(s.node))
                    o.callee = g
                    o.site = s
                    if tr and self._add_mut(f, o, tr, None):
                        changed = True
            for origin, atoms in list(self.mut[g].items()):
                for a in atoms:
                    if prim and isinstance(a, tuple) and a[1] is g and a[2] in prim and origin.func is g:
                        continue
                    tr = self.subst(s, {a}, f)
                    tr = frozenset(x for x in tr if x != F)
                    if tr and self._add_mut(f, origin, tr, (s, a)):
                        changed = True
            # stores into arguments propagate to the caller's own params
            for idx, atoms in list(self.stores[g].items()):
                target = self.subst(s, {("P", g, idx)}, f)
                src = self.subst(s, atoms, f)
                for t in target:
                    if isinstance(t, tuple) and t[1] is f and t[0] == "P":
                        cur = self.stores[f].get(t[2], frozenset())
                        new = cur | src
                        if new != cur:
                            self.stores[f][t[2]] = new
                            changed = True
        return changed

    def _add_mut(self, f, origin, atoms, via):
        cur = self.mut[f].get(origin, frozenset())
        new = cur | frozenset(atoms)
        if new == cur:
            return False
        self.mut[f][origin] = new
        for a in new - cur:
            self.via.setdefault((f, origin, a), via)
        return True

    def _origin(self, f, node, what, target):
        key = (f.qualname, id(node))
        if key not in self.origins:
            self.origins[key] = Origin(f, node, what, target)
        return self.origins[key]

    def _is_immutable_expr(self, e, f):
        ts = self.inf.type_of(e, f)
        if not ts:
            return False
        for t in ts:
            if t[0] == "b" and t[1] in IMMUTABLE_B:
                continue
            if t[0] == "inst" and t[1] in self.imm_classes:
                continue
            return False
        return True

    def _has_repo_setter(self, recv, attr, f):
        """(definitely, possibly) a repo property setter handles `recv.attr = ...`"""
        ts = self.inf.type_of(recv, f)
        typed = [t for t in ts if t[0] in ("inst", "cls")]
        if typed:
            yes = 0
            for t in typed:
                for g in self.inf._lookup_attr(t, attr):
                    if g[0] == "meta":
                        g = g[1:]
                    if g[0] == "prop" and "set" in g[1]:
                        yes += 1
                        break
            return (yes == len(typed), yes > 0)
        possible = any("set" in p for c, p in self.prog.props_named(attr))
        return (False, possible)

    def _direct_writes(self, f):
        """Yield (origin, atoms, None) for write constructs in f's own body."""
        out = []
        parents = {}
        for n in walk_own(f.body):
            for ch in ast.iter_child_nodes(n):
                parents[id(ch)] = n

        def target_write(t, node, what):
            if isinstance(t, ast.Attribute):
                definitely, _ = self._has_repo_setter(t.value, t.attr, f)
                if definitely:
                    return  # modelled as a call to the setter
                v = self.val(t.value, f)
                out.append((self._origin(f, node, what, norm(t)), v.own, None))
            elif isinstance(t, ast.Subscript):
                v = self.val(t.value, f)
                out.append((self._origin(f, node, what, norm(t)), v.own, None))
            elif isinstance(t, (ast.Tuple, ast.List)):
                for e in t.elts:
                    target_write(e, node, what)
            elif isinstance(t, ast.Starred):
                target_write(t.value, node, what)

        for n in walk_own(f.body):
            if isinstance(n, ast.Assign):
                for t in n.targets:
                    target_write(t, n, "store")
            elif isinstance(n, ast.AnnAssign) and n.value is not None:
                target_write(n.target, n, "store")
            elif isinstance(n, ast.AugAssign):
                if isinstance(n.target, ast.Name):
                    if not self._is_immutable_expr(n.target, f) and not self._is_immutable_expr(n.value, f):
                        v = self.val(ast.Name(id=n.target.id, ctx=ast.Load()), f)
                        out.append((self._origin(f, n, "augassign", n.target.id), v.own, None))
                else:
                    target_write(n.target, n, "augassign")
            elif isinstance(n, ast.Delete):
                for t in n.targets:
                    target_write(t, n, "del")
            elif isinstance(n, ast.Call):
                d = dotted(n.func)
                if d in ("setattr", "delattr") and n.args:
                    v = self.val(n.args[0], f)
                    out.append((self._origin(f, n, "setattr", norm(n.args[0])), v.own, None))
                elif d in ("object.__setattr__", "object.__delattr__") and n.args:
                    v = self.val(n.args[0], f)
                    out.append((self._origin(f, n, "setattr", norm(n.args[0])), v.own, None))
                elif d in PROCESS_STATE_MUTATORS:
                    # library calls that edit interpreter-wide state (the warnings filter list, the locale, ...)
                    out.append((self._origin(f, n, "process-state", d), frozenset({G}), None))
                elif isinstance(n.func, ast.Attribute) and n.func.attr in MUTATORS:
                    recv = n.func.value
                    if self._is_repo_method_call(n, f):
                        continue
                    if isinstance(recv, ast.Call) and dotted(recv.func) == "super":
                        sp = self._outer_self(f)
                        if sp:
                            v = self.val(ast.Name(id=sp, ctx=ast.Load()), f)
                            out.append((self._origin(f, n, "mutator", f"super().{n.func.attr}"), v.own, None))
                        continue
                    if self._is_immutable_expr(recv, f):
                        continue
                    v = self.val(recv, f)
                    out.append((self._origin(f, n, "mutator", norm(recv)), v.own, None))
            elif isinstance(n, ast.Attribute) and isinstance(n.ctx, ast.Load) and n.attr in MUTATORS:
                par = parents.get(id(n))
                if isinstance(par, ast.Call) and par.func is n:
                    continue
                if self._is_immutable_expr(n.value, f):
                    continue
                # bound mutator taken as a value: treat as a write to the receiver
                ts = self.inf.type_of(n.value, f)
                if any(t[0] in ("inst", "cls") for t in ts):
                    continue
                v = self.val(n.value, f)
                out.append((self._origin(f, n, "alias", norm(n.value)), v.own, None))
        return [(o, frozenset(atoms), s) for o, atoms, s in out]

    def all_writes(self, f):
        """Every write construct in f's own body with the owner atoms of its
        target (including fresh ones), plus primitive-mutator call sites."""
        out = list((o, atoms) for o, atoms, _ in self._direct_writes(f))
        sites, _ = self.inf.sites(f)
        seen = set()
        for s in sites:
            prim = self.primitives.get(s.callee)
            if prim and id(s.node) not in seen:
                seen.add(id(s.node))
                atoms = set()
                for idx in prim:
                    atoms |= self.subst(s, {("P", s.callee, idx)}, f)
                o = self._origin(f, s.node, "primitive", norm(s.node))
                o.callee = s.callee
                o.site = s
                out.append((o, frozenset(atoms)))
        return out

    def _outer_self(self, f):
        g = f
        while g.parent is not None:
            g = g.parent
        return g.self_param()

    def _is_repo_method_call(self, call, f):
        sites, _ = self.inf.sites(f)
        hit = [s for s in sites if s.node is call and s.kind == "call"]
        if not hit:
            return False
        # if every candidate is a repo method and the receiver is typed, it is a repo call
        ts = self.inf.type_of(call.func.value, f)
        return bool(ts) and all(t[0] in ("inst", "cls") for t in ts)

    def _direct_stores(self, f):
        """param index -> atoms stored into that parameter's fields/contents."""
        out = {}

        def add(recv, valexpr, spread=False, raw=None):
            rv = self.val(recv, f)
            v = raw if raw is not None else self.val(valexpr, f)
            atoms = v.cont if spread else (v.own | v.cont)
            for a in rv.own:
                if isinstance(a, tuple) and a[0] == "P" and a[1] is f:
                    out[a[2]] = out.get(a[2], frozenset()) | atoms

        for n in walk_own(f.body):
            if isinstance(n, (ast.Assign, ast.AnnAssign, ast.AugAssign)):
                targets = n.targets if isinstance(n, ast.Assign) else [n.target]
                if n.value is None:
                    continue
                for t in targets:
                    if isinstance(t, (ast.Attribute, ast.Subscript)):
                        add(t.value, n.value)
            elif isinstance(n, ast.Call):
                if isinstance(n.func, ast.Attribute) and n.func.attr in MUTATORS and n.args:
                    for a in n.args:
                        add(n.func.value, a, spread=n.func.attr in SPREAD_MUTATORS)
                    for k in n.keywords:
                        add(n.func.value, k.value)
                elif dotted(n.func) == "setattr" and len(n.args) == 3:
                    add(n.args[0], n.args[2])
        return out

    # --------------------------------------------------------------- values
    def env(self, f, name):
        key = (f, name)
        if key in self._env_cache:
            return self._env_cache[key]
        if key in self._active:
            return IMM
        self._active.add(key)
        try:
            vals = []
            for b in self.inf.bindings(f).get(name, []):
                vals.append(self._binding_val(f, name, b))
            v = joinall(vals)
            # content additions to fresh local containers / objects
            extra = set()
            for n in walk_own(f.body):
                if isinstance(n, ast.Call) and isinstance(n.func, ast.Attribute) and n.func.attr in MUTATORS:
                    if isinstance(n.func.value, ast.Name) and n.func.value.id == name:
                        for a in list(n.args) + [k.value for k in n.keywords]:
                            av = self.val(a, f)
                            extra |= av.cont if n.func.attr in SPREAD_MUTATORS else (av.own | av.cont)
                elif isinstance(n, (ast.Assign, ast.AugAssign, ast.AnnAssign)) and getattr(n, "value", None) is not None:
                    targets = n.targets if isinstance(n, ast.Assign) else [n.target]
                    for t in targets:
                        if isinstance(t, (ast.Attribute, ast.Subscript)) and isinstance(t.value, ast.Name) \
                                and t.value.id == name:
                            av = self.val(n.value, f)
                            extra |= av.own | av.cont
            # stores performed by callees into this local
            sites, _ = self.inf.sites(f)
            for s in sites:
                g = s.callee
                for idx, atoms in self.stores[g].items():
                    bound = self._bound_exprs(s, g, idx)
                    for e in bound:
                        if isinstance(e, ast.Name) and e.id == name:
                            extra |= self.subst(s, atoms, f)
            if extra:
                v = Val(v.own, v.cont | frozenset(extra))
        finally:
            self._active.discard(key)
        self._env_cache[key] = v
        return v

    def _bound_exprs(self, s, g, idx):
        if idx >= len(g.params):
            return []
        b = s.bind().get(g.params[idx].name, [])
        return [e for e in b if isinstance(e, ast.AST)]

    def _binding_val(self, f, name, b):
        kind = b[0]
        if kind == "param":
            p = b[1]
            if p.annotation is not None or True:
                ts = self.inf._param_type(f, p)
                if ts and all((t[0] == "b" and t[1] in IMMUTABLE_B) or (t[0] == "inst" and t[1] in self.imm_classes)
                              for t in ts) and p.kind not in ("vararg", "kwarg"):
                    # declared immutable (str, int, ...): annotation is trusted only for builtins
                    if p.annotation is not None:
                        return IMM
            if p.kind in ("vararg", "kwarg"):
                return Val({F}, {("P", f, p.index)})
            pv = Val({("P", f, p.index)}, {("P*", f, p.index)})
            if p.default is not None:
                # the default object is evaluated once, at definition: whenever a caller leaves the argument out the
                # parameter IS that object (shared between calls when it is mutable)
                pv = pv.join(self._default_val(p.default, f))
            return pv
        if kind == "assign":
            return self.val(b[1], f)
        if kind == "aug":
            # x += y keeps x's identity; y's contents flow into x
            v = self.val(b[1], f)
            return Val(EMPTY, v.cont)
        if kind == "annot":
            return IMM
        if kind == "def":
            return IMM
        if kind == "iter":
            return self._iter_val(b[1], f)
        if kind == "unpack":
            src = b[1]
            if src[0] == "iter":
                it = src[1]
                # for k, v in d.items(): both drawn from d's contents
                return elem(self._iter_val(it, f)) .join(self._iter_val(it, f))
            if src[0] == "assign":
                v = src[1]
                if isinstance(v, (ast.Tuple, ast.List)) and b[2] < len(v.elts):
                    return self.val(v.elts[b[2]], f)
                return elem(self.val(v, f))
            if src[0] == "unpack":
                return elem(elem(self._binding_val(f, name, ("unpack", src[1], src[2]))))
            return GLOBV
        if kind == "with":
            return self.val(b[1], f)
        if kind == "exc":
            return FRESHV
        return GLOBV

    def _iter_val(self, it, f):
        """Val of the elements produced by iterating `it`."""
        if isinstance(it, ast.Call):
            d = dotted(it.func)
            if d == "enumerate" and it.args:
                inner = self._iter_val(it.args[0], f)
                return Val({F}, inner.own | inner.cont)
            if d == "zip":
                vals = [self._iter_val(a, f) for a in it.args]
                j = joinall(vals)
                return Val({F}, j.own | j.cont)
            if isinstance(it.func, ast.Attribute) and it.func.attr in ("items",) and not it.args:
                base = self.val(it.func.value, f)
                return Val({F}, base.cont)
            if isinstance(it.func, ast.Attribute) and it.func.attr in ("values", "keys") and not it.args:
                return elem(self.val(it.func.value, f))
        return elem(self.val(it, f))

    def val(self, e, f):
        key = (id(e), f)
        if key in self._val_cache:
            return self._val_cache[key]
        if key in self._active:
            return IMM
        self._active.add(key)
        try:
            v = self._val(e, f)
        finally:
            self._active.discard(key)
        self._val_cache[key] = v
        return v

    def _name_val(self, name, f):
        g = f if isinstance(f, Func) else None
        while g is not None:
            if name in g.locals():
                return self.env(g, name)
            g = g.parent
        mod = f.module if isinstance(f, Func) else f
        r = self.prog.resolve_global(mod, name)
        if r is None:
            return GLOBV
        if r[0] in ("func",):
            return IMM
        if r[0] == "class":
            return GLOBV
        if r[0] == "const":
            return self._const_val(r[2], r[1])
        if r[0] in ("builtin", "ext", "module"):
            return IMM if r[0] != "module" else GLOBV
        return GLOBV

    def _const_val(self, expr, mod):
        if self._literal_immutable(expr):
            return IMM
        return GLOBV

    def _literal_immutable(self, e):
        if isinstance(e, ast.Constant):
            return True
        if isinstance(e, ast.Tuple):
            return all(self._literal_immutable(x) for x in e.elts)
        if isinstance(e, ast.Call) and dotted(e.func) in ("frozenset", "tuple", "TypeVar", "object", "getLogger"):
            return dotted(e.func) in ("TypeVar",) or all(self._literal_immutable(a) for a in e.args)
        if isinstance(e, ast.Subscript):  # typing aliases
            return True
        if isinstance(e, ast.Lambda):
            return True
        return False

    def _val(self, e, f):
        inf = self.inf
        if isinstance(e, (ast.Constant, ast.JoinedStr, ast.Compare, ast.Lambda)):
            return IMM
        if isinstance(e, ast.UnaryOp):
            return IMM
        if isinstance(e, ast.Name):
            if isinstance(f, Func) and self._is_immutable_expr(e, f) and False:
                return IMM
            return self._name_val(e.id, f)
        if isinstance(e, (ast.List, ast.Tuple, ast.Set)):
            vs = [self.val(x, f) for x in e.elts]
            j = joinall(vs)
            if isinstance(e, ast.Tuple) and not (j.own | j.cont):
                return IMM
            return Val({F}, j.own | j.cont)
        if isinstance(e, ast.Dict):
            vs = [self.val(x, f) for x in list(e.values) + [k for k in e.keys if k is not None]]
            spread = [self.val(v, f) for k, v in zip(e.keys, e.values) if k is None]
            j = joinall(vs)
            cont = set(j.own | j.cont)
            for k, v in zip(e.keys, e.values):
                if k is None:
                    sv = self.val(v, f)
                    cont -= sv.own - sv.cont if False else set()
            # {**a}: a's contents, not a itself
            cont = set()
            for k, v in zip(e.keys, e.values):
                vv = self.val(v, f)
                if k is None:
                    cont |= vv.cont
                else:
                    cont |= vv.own | vv.cont
                    kv = self.val(k, f)
                    cont |= kv.own | kv.cont
            return Val({F}, cont)
        if isinstance(e, (ast.ListComp, ast.SetComp, ast.GeneratorExp)):
            v = self.val(e.elt, f)
            return Val({F}, v.own | v.cont)
        if isinstance(e, ast.DictComp):
            v = self.val(e.value, f).join(self.val(e.key, f))
            return Val({F}, v.own | v.cont)
        if isinstance(e, ast.BoolOp):
            return joinall([self.val(x, f) for x in e.values])
        if isinstance(e, ast.IfExp):
            return self.val(e.body, f).join(self.val(e.orelse, f))
        if isinstance(e, ast.NamedExpr):
            return self.val(e.value, f)
        if isinstance(e, ast.Starred):
            return self.val(e.value, f)
        if isinstance(e, ast.BinOp):
            if self._is_immutable_expr(e.left, f) or self._is_immutable_expr(e.right, f):
                return IMM
            j = self.val(e.left, f).join(self.val(e.right, f))
            return Val({F}, j.cont)
        if isinstance(e, ast.Attribute):
            return self._attr_val(e.value, e.attr, f, node=e)
        if isinstance(e, ast.Subscript):
            base = self.val(e.value, f)
            if isinstance(e.slice, ast.Slice):
                return Val({F}, base.cont)
            v = elem(base)
            for s in self._sites_at(e, f):
                if s.kind == "op" and s.callee.name == "__getitem__":
                    v = v.join(self._translate_ret(s, f))
            return v
        if isinstance(e, ast.Call):
            return self._call_val(e, f)
        if isinstance(e, (ast.Yield, ast.YieldFrom, ast.Await)):
            return GLOBV
        return GLOBV

    def _sites_at(self, node, f):
        if not isinstance(f, Func):
            return []
        sites, _ = self.inf.sites(f)
        return [s for s in sites if s.node is node]

    def _attr_val(self, recv, attr, f, node=None):
        if attr in ("__class__",):
            return GLOBV
        if attr in ("__name__", "__doc__", "__module__", "__qualname__"):
            return IMM
        base = self.val(recv, f)
        ts = self.inf.type_of(recv, f) if isinstance(f, Func) else frozenset()
        # module attribute / class constant
        if any(t[0] in ("mod", "ext") for t in ts) and not any(t[0] in ("inst", "cls") for t in ts):
            return IMM if not base.all() else GLOBV
        vals = []
        getter_sites = []
        if node is not None:
            getter_sites = [s for s in self._sites_at(node, f) if s.kind == "getter"]
        elif isinstance(f, Func):
            # synthetic getattr(): find getter sites by receiver identity
            sites, _ = self.inf.sites(f)
            getter_sites = [s for s in sites if s.kind == "getter" and s.recv is recv and s.callee.prop_name == attr]
        for s in getter_sites:
            vals.append(self._translate_ret(s, f))
        typed = [t for t in ts if t[0] == "inst"]
        all_typed_resolved = bool(typed) and len(typed) == len(ts) and getter_sites and all(
            s.edge == "resolved" for s in getter_sites)
        if not (all_typed_resolved and self._getter_covers(typed, attr)):
            # plain field read
            owned = bool(typed) and len(typed) == len(ts) and attr in self.owned_fields
            if owned:
                vals.append(Val(base.own, base.cont))
            else:
                vals.append(Val(base.cont, deref(base.cont)))
        # a mutable object created in the class body is one object shared by every instance that reads it
        for t in ts:
            if t[0] in ("inst", "cls") and hasattr(t[1], "lookup"):
                hit = t[1].lookup(attr)
                if hit and hit[0] == "const" and self._mutable_alloc(hit[1]):
                    vals.append(GLOBV)
        v = joinall(vals)
        # declared-immutable results
        if isinstance(f, Func) and node is not None and self._is_immutable_expr(node, f):
            return IMM
        return v

    @staticmethod
    def _mutable_alloc(e):
        if isinstance(e, (ast.Dict, ast.List, ast.Set, ast.ListComp, ast.DictComp, ast.SetComp)):
            return True
        return isinstance(e, ast.Call) and dotted(e.func) in (
            "dict", "list", "set", "defaultdict", "collections.defaultdict", "OrderedDict", "collections.OrderedDict",
            "deque", "collections.deque", "Counter", "collections.Counter", "bytearray")

    def _getter_covers(self, typed, attr):
        """True when every typed receiver class resolves `attr` to a property."""
        for t in typed:
            g = t[1].lookup(attr)
            if not (g and g[0] == "prop"):
                return False
        return True

    def _translate_ret(self, s, f):
        g = s.callee
        r = self.ret[g]
        return Val(self.subst(s, r.own, f), self.subst(s, r.cont, f, cont=True))

    def _call_val(self, e, f):
        d = dotted(e.func)
        args = list(e.args) + [k.value for k in e.keywords]
        if d in PURE_BUILTINS:
            return IMM
        if d == "cast" and len(e.args) == 2:
            return self.val(e.args[1], f)
        if d == "type":
            return GLOBV if len(e.args) == 1 else FRESHV
        if d == "type.__new__":
            # a new class resolves attributes through its bases
            j = joinall([self.val(a, f) for a in args])
            return Val({F}, j.own | j.cont)
        if d in ("object.__new__", "super().__new__"):
            return FRESHV
        if d == "vars" and e.args:
            v = self.val(e.args[0], f)
            return Val(v.own, v.cont)
        gw = self.inf.getattr_wrapper(e, f) if isinstance(f, Func) else None
        if gw is not None:
            e = ast.Call(func=ast.Name(id="getattr", ctx=ast.Load()), args=[gw[0], gw[1]] + ([gw[2]] if gw[2] is not None else []), keywords=[])
            d = "getattr"
        if d == "getattr" and len(e.args) >= 2:
            key = e.args[1]
            names = None
            if isinstance(key, ast.Constant) and isinstance(key.value, str):
                names = [key.value]
            base = self.val(e.args[0], f)
            vals = []
            if names:
                vals.append(self._attr_val(e.args[0], names[0], f, node=None))
                for s in self._sites_at(e, f):
                    if s.kind == "getter":
                        vals.append(self._translate_ret(s, f))
            else:
                vals.append(Val(base.cont, deref(base.cont)))
                for s in self._sites_at(e, f):
                    if s.kind == "getter":
                        vals.append(self._translate_ret(s, f))
            if len(e.args) == 3:
                vals.append(self.val(e.args[2], f))
            return joinall(vals)
        if d == "next" and e.args:
            v = elem(self.val(e.args[0], f))
            if len(e.args) > 1:
                v = v.join(self.val(e.args[1], f))
            return v
        if d in FRESH_CONTAINER_BUILTINS:
            conts = set()
            for a in args:
                av = self.val(a, f)
                conts |= av.cont
            if d in ("map", "filter"):
                # results of calling the function on the elements
                for a in args[1:]:
                    av = self.val(a, f)
                    conts |= av.cont
                for s in self._sites_at(e, f):
                    if s.kind == "closurecall":
                        r = self._translate_ret(s, f)
                        conts |= r.own | r.cont
            return Val({F}, conts)
        if d in ("partial", "functools.partial"):
            j = joinall([self.val(a, f) for a in args])
            return Val({F}, j.own | j.cont)
        if d in ("chain", "itertools.chain", "chain.from_iterable", "itertools.chain.from_iterable"):
            conts = set()
            for a in args:
                av = self.val(a, f)
                conts |= av.cont | deref(av.cont)
            return Val({F}, conts)
        if d in ("copy.copy", "copy"):
            av = self.val(args[0], f) if args else IMM
            return Val({F}, av.cont)
        if d in ("copy.deepcopy", "deepcopy"):
            return FRESHV
        sites = [s for s in self._sites_at(e, f) if s.kind in ("call", "ctor", "new", "ctor_super")]
        ts = self.inf.type_of(e.func, f) if isinstance(f, Func) else frozenset()
        vals = []
        handled = False
        # constructor calls
        ctor_classes = [t[1] for t in ts if t[0] == "cls"]
        meta_inst = [t[1] for t in ts if t[0] == "inst" and any(b == "type" for b in t[1].ext_bases())]
        if ctor_classes or meta_inst:
            handled = True
            cont = set()
            own = {F}
            for s in sites:
                if s.kind == "ctor":
                    st = self.stores[s.callee].get(0, frozenset())
                    cont |= self.subst(s, st, f)
                elif s.kind == "new":
                    r = self._translate_ret(s, f)
                    own |= r.own - {G} if False else r.own
                    cont |= r.cont
            # classes without a repo constructor (dict subclasses, exceptions): hold their args
            for c in ctor_classes:
                if not c.lookup("__init__"):
                    for a in args:
                        av = self.val(a, f)
                        cont |= av.cont if any(b in ("dict", "list", "typing.Dict") for b in c.ext_bases()) \
                            else (av.own | av.cont)
                if c in self.imm_classes and not cont - {F}:
                    return IMM
            vals.append(Val(own, cont))
        for s in sites:
            if s.kind == "call":
                handled = True
                vals.append(self._translate_ret(s, f))
        if handled and not any(t[0] in ("ext", "extinst", "b") for t in ts) and (ts or sites):
            if all(s.edge == "resolved" for s in sites) or ts:
                return joinall(vals)
            # resolved by name only: complete unless the name is also a builtin container method
            from .infer import BUILTIN_METHODS
            if isinstance(e.func, ast.Attribute) and e.func.attr not in BUILTIN_METHODS:
                return joinall(vals)
        # method on a builtin container / external call
        if isinstance(e.func, ast.Attribute):
            m = e.func.attr
            recv = self.val(e.func.value, f)
            if self._is_immutable_expr(e.func.value, f) or (isinstance(e.func.value, ast.Constant)):
                if m in ("join", "format", "replace", "lower", "upper", "strip", "lstrip", "rstrip", "title",
                         "startswith", "endswith", "isalnum", "isdigit", "encode", "decode", "isidentifier",
                         "isprintable", "count", "index", "find"):
                    return IMM
                if m in ("split", "splitlines", "partition"):
                    return FRESHV
            if m in ("get", "pop", "setdefault"):
                v = elem(recv)
                for a in e.args[1:]:
                    v = v.join(self.val(a, f))
                return joinall(vals + [v])
            if m in ("items", "values", "keys", "copy", "union", "intersection", "difference",
                     "symmetric_difference"):
                conts = set(recv.cont)
                for a in args:
                    conts |= self.val(a, f).cont
                return joinall(vals + [Val({F}, conts)])
            if m in ("join", "format", "lower", "upper", "replace", "strip", "lstrip", "rstrip", "title",
                     "startswith", "endswith", "isalnum", "isdigit", "isidentifier", "isprintable", "lstrip",
                     "encode", "decode", "count", "index", "find", "mro", "isnumeric", "isalpha"):
                return joinall(vals + [IMM if m != "mro" else GLOBV])
            if m in ("split", "findall", "finditer"):
                return joinall(vals + [FRESHV])
            if m in MUTATORS:
                return joinall(vals + [IMM])
            j = joinall([recv] + [self.val(a, f) for a in args])
            x = j.own | j.cont
            return joinall(vals + [Val(x, deref(x))])
        if any(t[0] == "ext" for t in ts) or not ts:
            name = d or ""
            if name.split(".")[0] in ("re", "unicodedata", "string", "warnings", "keyword", "inspect", "uuid", "os",
                                      "json", "math", "operator", "op", "UUID", "parse_datetime"):
                return joinall(vals + [FRESHV])
            j = joinall([self.val(a, f) for a in args] + ([self.val(e.func, f)] if not d else []))
            x = j.own | j.cont
            return joinall(vals + [Val(x | {F}, deref(x))])
        return joinall(vals) if vals else GLOBV

    # ---------------------------------------------------------- substitution
    def _arg_vals(self, s, g, idx, f):
        """Vals bound to callee param idx at site s (evaluated in caller f)."""
        if idx >= len(g.params):
            return [GLOBV]
        p = g.params[idx]
        bound = s.bind().get(p.name, ["UNKNOWN"])
        out = []
        for b in bound:
            if isinstance(b, ast.AST):
                out.append(self.val(b, f))
            elif b == "FRESH":
                out.append(FRESHV)
            elif b == "CLS":
                out.append(GLOBV)
            elif b == "UNKNOWNRECV":
                out.append(GLOBV)
            elif b == "UNKNOWN":
                out.append(self._unknown_arg(s, f))
            elif isinstance(b, tuple) and b[0] == "default":
                out.append(self._default_val(b[1], g))
            elif isinstance(b, tuple) and b[0] == "pack":
                vs = []
                for x in b[1]:
                    if isinstance(x, ast.AST):
                        vs.append(self.val(x, f))
                    elif x == "UNKNOWN":
                        vs.append(self._unknown_arg(s, f))
                j = joinall(vs)
                # the pack itself is fresh; its elements are the args
                out.append(("pack", j))
        return out

    def _unknown_arg(self, s, f):
        """Value of an argument supplied through *args/**kwargs or by an
        external higher-order caller."""
        node = s.node
        vals = []
        if isinstance(node, ast.Call):
            for a in node.args:
                if isinstance(a, ast.Starred):
                    vals.append(elem(self.val(a.value, f)))
            for k in node.keywords:
                if k.arg is None:
                    vals.append(elem(self.val(k.value, f)))
            if s.kind == "closurecall":
                for a in list(node.args) + [k.value for k in node.keywords]:
                    if isinstance(a, ast.Starred):
                        a = a.value
                    av = self.val(a, f)
                    vals.append(elem(av))
                    vals.append(av)
        if not vals:
            return GLOBV
        return joinall(vals)

    def _default_val(self, expr, g):
        if expr is None or self._literal_immutable(expr):
            return IMM
        scope = g.parent or g.module
        if isinstance(expr, ast.Call):
            ts = self.inf.type_of(expr, scope)
            if ts and all(t[0] == "inst" and t[1] in self.imm_classes for t in ts):
                return IMM
        if isinstance(expr, ast.Name):
            v = self._name_val(expr.id, scope)
            return v
        # a mutable default is shared between calls
        return GLOBV

    def subst(self, s, atoms, f, cont=False):
        """Translate callee-frame atoms at site s into caller-frame atoms."""
        g = s.callee
        out = set()
        for a in atoms:
            if a == F or a == G:
                out.add(a)
                continue
            kind, owner, idx = a
            if owner is g:
                for v in self._arg_vals(s, g, idx, f):
                    if isinstance(v, tuple) and v[0] == "pack":
                        j = v[1]
                        # ("P", g, vararg) denotes the elements of the pack
                        if kind == "P":
                            out |= j.own
                        else:
                            out |= j.cont
                    else:
                        if kind == "P":
                            out |= v.own
                        else:
                            out |= v.cont
            else:
                # closure atom: valid if owner encloses the caller
                h = f
                ok = False
                while h is not None:
                    if h is owner:
                        ok = True
                        break
                    h = h.parent if isinstance(h, Func) else None
                out.add(a if ok else G)
        return frozenset(out)

    # ------------------------------------------------------------- reporting
    def chain(self, f, origin, atom, limit=30):
        """Witness chain from f down to the write construct."""
        out = []
        cur_f, cur_a = f, atom
        for _ in range(limit):
            via = self.via.get((cur_f, origin, cur_a))
            if via is None:
                out.append(f"{cur_f.short} :: {norm(origin.node)}  [writes {fmt_atom(cur_a)}]")
                break
            s, callee_atom = via
            out.append(f"{cur_f.short} -> {s.callee.short} [{s.kind}/{s.edge}] at `{norm(s.node)[:90]}` "
                       f"({fmt_atom(cur_a)} <- {fmt_atom(callee_atom)})")
            cur_f, cur_a = s.callee, callee_atom
        return out


def build(ctx):
    prims = {}
    for f in ctx.prog.find_funcs("_Property.bind"):
        prims[f] = {0}
    return Effects(ctx, prims)
