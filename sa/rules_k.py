"""Kind / conservation rules K1-K7 (DESIGN section 3)."""
import ast

from .core import rule, RuleResult
from .model import AnalysisError, dotted, norm, walk_own
from .paths import (Parents, guards_of, flat_guards, np_atom, strip_not, enumerate_paths, handlers_of)
from .pat import has, find, first, name_of
from .rules_t import deref_const, kwonly, str_elts
from .rules_d import fixture_ctx
from .norm import view, builders
from .paths import decision_table, isinstance_atom, flatten_guard, cmp_atom
from .pat import match, _parse


# ---------------------------------------------------------------------- K1
def _default_locals(f):
    """locals bound from the schema's `default` keyword: name -> binding stmt"""
    out = {}
    for pat in ("MV_d = MV_s.get('default', MV__)", "MV_d = MV_s.get('default')", "MV_d = MV_s['default']",
                "MV_d = MV_s.pop('default', MV__)", "MV_d = MV_s.pop('default')"):
        for node, b in find(pat, f):
            out[name_of(b["MV_d"])] = node
    return out


@rule("K1", "a default extracted from the schema is re-attached to the returned element on every path")
def k1(ctx, res):
    n = 0
    parser = ctx.prog.by_relpath.get("statham/schema/parser.py")
    if parser is None:
        raise AnalysisError("parser module vanished")
    for f in sorted(parser.funcs.values(), key=lambda f: f.qualname):
        locs = _default_locals(f)
        for name, bind_stmt in sorted(locs.items()):
            n += 1
            paths = enumerate_paths(f.body)
            bad = []
            for p in paths:
                if p.exit != "return":
                    continue
                if not any(s is bind_stmt for s in p.stmts if isinstance(s, ast.AST)):
                    continue  # extracted after this return
                excused = False
                for c in p.conds:
                    if isinstance(c[0], str):
                        continue
                    a = np_atom(c[0], c[1])
                    if a and a[0] == name and a[1]:
                        excused = True
                if excused:
                    continue
                ret = p.exit_node.value
                attached = False
                # returned constructor call carrying default=<name>
                for x in ast.walk(ret) if ret is not None else []:
                    if isinstance(x, ast.Call) and any(k.arg == "default" and _mentions(k.value, name) for k in x.keywords) \
                            and x is ret:
                        attached = True
                # store on the returned local
                if isinstance(ret, ast.Name):
                    for s in p.stmts:
                        if isinstance(s, ast.Assign) and any(norm(t) == f"{ret.id}.default" for t in s.targets) and _mentions(s.value, name):
                            attached = True
                        if isinstance(s, ast.Assign) and any(norm(t) == ret.id for t in s.targets) and isinstance(s.value, ast.Call) \
                                and any(k.arg == "default" and _mentions(k.value, name) for k in s.value.keywords):
                            attached = True
                # forwarded inside the schema handed to the callee (dict display spreading a schema that still has default)
                if not attached:
                    bad.append(norm(p.exit_node))
            res.check(not bad, f, f"default extracted into `{name}` is attached to every returned element",
                      detail={"returns_dropping_it": bad},
                      reason="a declared default is never dropped, and lands on the element that is returned")
    res.floor("default_extractions", n, 2)


@rule("K10", "the parser never removes a key from a schema dict it is visiting")
def k10(ctx, res):
    parser = ctx.prog.by_relpath.get("statham/schema/parser.py")
    if parser is None:
        raise AnalysisError("parser module vanished")
    n_funcs = 0
    for f in sorted(parser.funcs.values(), key=lambda f: f.qualname):
        sp = {p.name for p in f.params if p.name in ("schema", "definition", "sub_schema")
              or (p.annotation is not None and norm(p.annotation).startswith("Dict[str"))}
        if not sp:
            continue
        n_funcs += 1
        # plain aliases of the schema parameter
        for st in walk_own(f.body):
            if isinstance(st, ast.Assign) and len(st.targets) == 1 and isinstance(st.targets[0], ast.Name) \
                    and isinstance(st.value, ast.Name) and st.value.id in sp:
                sp.add(st.targets[0].id)
        clean = True
        for node in walk_own(f.body):
            if isinstance(node, ast.Call) and isinstance(node.func, ast.Attribute) and isinstance(node.func.value, ast.Name) \
                    and node.func.value.id in sp and node.func.attr in ("pop", "popitem", "clear"):
                clean = False
                res.violation(f, node, reason="the parser removes a key from the caller's schema dict: the same dict is visited again "
                                               "(shared $ref targets, the definitions pass, and - for cyclic documents - the re-entrant "
                                               "visit whose RecursionError is the refusal) and that visit no longer sees the keyword")
            if isinstance(node, ast.Delete):
                for t in node.targets:
                    if isinstance(t, ast.Subscript) and isinstance(t.value, ast.Name) and t.value.id in sp:
                        clean = False
                        res.violation(f, node, reason="the parser deletes a key from the caller's schema dict (visited again later)")
        if clean:
            res.ok(f, "no pop / popitem / clear / del on " + ", ".join(sorted(sp)), reason="keys of a visited schema dict are only read or overwritten")
    res.floor("parser_functions_taking_a_schema", n_funcs, 12)


def _mentions(e, name):
    return any(isinstance(x, ast.Name) and x.id == name for x in ast.walk(e))


# ---------------------------------------------------------------------- K2
@rule("K2", "the JSON serializer never overwrites or deletes a keyword value it read from the element")
def k2(ctx, res):
    ser0 = ctx.func("_serialize_element")
    # the local that holds the outgoing keyword dict: the one bound to the signature comprehension
    sname = None
    for st in walk_own(view(ser0, ctx.prog).body):
        if isinstance(st, (ast.Assign, ast.AnnAssign)) and st.value is not None \
                and has("inspect.signature(Element.__init__)", st.value):
            tg = st.targets[0] if isinstance(st, ast.Assign) else st.target
            if isinstance(tg, ast.Name):
                sname = tg.id
    if sname is None:
        # built by an accumulate-loop (possibly in an extracted helper, flattened by the normaliser)
        for b_ in builders(view(ser0, ctx.prog).body):
            if b_.kind == "dict" and b_.name and has("inspect.signature(Element.__init__)", b_.iter):
                sname = b_.name
    if sname is None:
        raise AnalysisError("_serialize_element: the keyword dict built from inspect.signature(Element.__init__) was not found")
    ser = view(ser0, ctx.prog, keep=(sname,))
    base_kw = set(kwonly(ctx.func("Element.__init__")))
    P = Parents(ser.body)
    n = 0
    for node in walk_own(ser.body):
        if isinstance(node, ast.Assign):
            for t in node.targets:
                if isinstance(t, ast.Subscript) and norm(t.value) == sname and isinstance(t.slice, ast.Constant) \
                        and t.slice.value in base_kw:
                    n += 1
                    k = t.slice.value
                    from .norm import text_resolver, _subst_expr
                    R_ = text_resolver(ser.body, keep=(sname,))
                    rtxt = R_(node.value)
                    reads_old = has(f"{sname}[{k!r}]", node.value) or has(f"{sname}.get({k!r}, MV__)", node.value) \
                        or has(f"{sname}.get({k!r})", node.value) or has(f"{sname}.pop({k!r}, MV__)", node.value) \
                        or f"{sname}[{k!r}]" in rtxt or f"{sname}.get({k!r}" in rtxt
                    res.check(reads_old, ser, f"schema[{k!r}] = ...", detail={"value": norm(node.value)[:120]},
                              reason=f"a later store to keyword `{k}` must be computed from the value already read from "
                                     "the element (otherwise the element's own value is lost)")
        elif isinstance(node, ast.Delete):
            for t in node.targets:
                if isinstance(t, ast.Subscript) and norm(t.value) == sname and isinstance(t.slice, ast.Constant):
                    n += 1
                    k = t.slice.value
                    gs = flat_guards(P, node)
                    ok = any(pol is False and norm(tt) in (f"{sname}.get({k!r}, True)", f"{sname}[{k!r}]", f"{sname}.get({k!r})")
                             for tt, pol in gs)
                    droppable = k in ("properties", "required")
                    res.check(ok and droppable, ser, f"del schema[{k!r}]",
                              reason="a keyword is deleted only when its own value is empty, and only `properties` / `required`, "
                                     "whose empty value means nothing (an empty or false `items`, a false additional*, a falsy "
                                     "default are meaningful and must be emitted)")
        elif isinstance(node, ast.Call) and isinstance(node.func, ast.Attribute) and norm(node.func.value) == sname \
                and node.func.attr in ("pop", "clear", "popitem", "update"):
            n += 1
            res.violation(ser, node, reason="keyword values are removed or replaced wholesale on the way out")
    # re-binding the keyword dict to a filtered copy of itself drops keywords wholesale
    first = True
    for node in walk_own(ser.body):
        if isinstance(node, (ast.Assign, ast.AnnAssign)) and node.value is not None:
            tg = node.targets[0] if isinstance(node, ast.Assign) else node.target
            if isinstance(tg, ast.Name) and tg.id == sname:
                if first:
                    first = False
                    continue
                v_ = node.value
                if isinstance(v_, ast.DictComp) and len(v_.generators) == 1 and norm(v_.generators[0].iter) == f"{sname}.items()" \
                        and v_.generators[0].ifs:
                    n += 1
                    res.violation(ser, f"{sname} = {{... for ... in {sname}.items() if {norm(v_.generators[0].ifs[0])[:60]}}}",
                                  reason="the keyword dict is replaced by a filtered copy: every keyword whose value meets the "
                                         "filter is dropped (empty `items`, `const: []`, `enum: []` ... are meaningful)")
    res.floor("stores_and_deletes_on_schema", n, 3)
    # the initial read takes every keyword that differs from its constructor default
    ok = False
    for node, b in find("MV_s = {MV_p.name: getattr(MV_e, MV_p.name, MV_p.default) for MV_p in MV_it if MV_c}", ser):
        ok = True
    for n2 in walk_own(ser.body):
        if isinstance(n2, ast.DictComp) and has("inspect.signature(Element.__init__).parameters.values()", n2):
            g = n2.generators[0]
            conds = []
            for c in g.ifs:
                conds += c.values if isinstance(c, ast.BoolOp) and isinstance(c.op, ast.And) else [c]
            pn = norm(g.target)
            el = ser0.params[0].name
            want = {f"{pn}.kind == {pn}.KEYWORD_ONLY", f"getattr({el}, {pn}.name, {pn}.default) != {pn}.default"}
            ok = {norm(c) for c in conds} == want and norm(n2.key) == f"{pn}.name" and \
                norm(n2.value) == f"getattr({el}, {pn}.name, {pn}.default)"
    if not ok:
        for b_ in builders(ser.body):
            if b_.kind == "dict" and has("inspect.signature(Element.__init__).parameters.values()", b_.iter) and isinstance(b_.target, ast.Name):
                pn = b_.target.id
                el = ser0.params[0].name
                want = sorted([f"{pn}.kind == {pn}.KEYWORD_ONLY", f"getattr({el}, {pn}.name, {pn}.default) != {pn}.default"])
                ok = sorted(b_.guard_texts()) == want and b_.key is not None and norm(b_.key) == f"{pn}.name" \
                    and norm(b_.elt) == f"getattr({el}, {pn}.name, {pn}.default)"
    res.check(ok, ser, "{p.name: getattr(element, p.name, p.default) for keyword-only p if value != p.default}",
              reason="every keyword whose value differs from the constructor default is read (equality, not truthiness)")


@rule("K11", "the emitted `required` list demands exactly what the Required validator demands")
def k11(ctx, res):
    """Sibling cross-check: _PropertyDict.required (what validation demands) vs the list the JSON serializer emits."""
    rq = ctx.cls("_PropertyDict").props["required"]["get"]
    waives = False
    for b in builders(view(rq, ctx.prog).body):
        if has("self.items()", b.iter):
            for t, pol in b.guards:
                for t2, p2 in flatten_guard(t, pol):
                    a = np_atom(t2, p2)
                    if a and a[0].endswith(".element.default") and a[1]:
                        waives = True
    ser = view(ctx.func("_serialize_element"), ctx.prog, keep=("schema",))
    verdict = None
    found = []
    for b in builders(ser.body):
        it = norm(b.iter)
        if not (it.endswith(".items()") and "properties" in it and isinstance(b.target, ast.Tuple) and len(b.target.elts) == 2):
            continue
        if b.kind in ("list", "gen", "set") and any(g.endswith(".required") for g in b.guard_texts()):
            gts = b.guard_texts()
            found.append(gts)
            has_np = any((np_atom(t2, p2) or ("", None))[0].endswith(".element.default") and (np_atom(t2, p2) or (None, None))[1]
                         for t, pol in b.guards for t2, p2 in flatten_guard(t, pol))
            verdict = (has_np == waives)
    res.judge(verdict, ser, "required: [prop.source or name for ... if prop.required]",
              detail={"validator_waives_defaulted": waives, "serializer_filters": found},
              reason="validation lets a required property with a default be omitted, but the serializer lists it in `required`: "
                     "the emitted document rejects {} which the element tree accepts "
                     "(class R(Object): a = Property(String(default='x'), required=True))")


@rule("K12", "the `required` flag of every property survives serialization (it is listed whenever it is set)")
def k12(ctx, res):
    ser = view(ctx.func("_serialize_element"), ctx.prog, keep=("schema",))
    verdict = None
    detail = {}
    for b in builders(ser.body):
        it = norm(b.iter)
        if not (it.endswith(".items()") and "properties" in it and isinstance(b.target, ast.Tuple) and len(b.target.elts) == 2):
            continue
        if b.kind in ("list", "gen", "set") and any(g.endswith(".required") for g in b.guard_texts()):
            conds = [c for t, pol in b.guards for c in flatten_guard(t, pol)]
            detail["filters"] = b.guard_texts()
            verdict = len(conds) == 1
    if verdict is None:
        # the validator's helper used for serialization?
        for n in walk_own(ser.body):
            if isinstance(n, ast.Attribute) and n.attr == "required" and "properties" in norm(n.value) and isinstance(n.ctx, ast.Load):
                rq = ctx.cls("_PropertyDict").props["required"]["get"]
                for b in builders(view(rq, ctx.prog).body):
                    if has("self.items()", b.iter):
                        conds = [c for t, pol in b.guards for c in flatten_guard(t, pol)]
                        detail["filters"] = ["_PropertyDict.required: " + g for g in b.guard_texts()]
                        verdict = len(conds) == 1
    res.judge(verdict, ser, "required += [prop.source or name for ... if prop.required]", detail=detail,
              reason="the emitted `required` is filtered by more than the property's own flag (the validator's helper also "
                     "skips properties that declare a default): Property(String(default='x'), required=True) comes back from "
                     "the round trip with required=False")


@rule("K13", "literal keyword values are never de-duplicated or sorted with Python equality")
def k13(ctx, res):
    """enum / const / default hold JSON values: Python's == merges true with 1 and false with 0, so an equality-based
    de-duplication outside the bool-aware normalisation changes the set of accepted values."""
    n_funcs = 0
    DEDUPERS = ("remove_duplicates", "set", "frozenset", "dict.fromkeys", "OrderedDict.fromkeys", "sorted")
    for f in ctx.prog.all_funcs():
        if not (f.module.name.startswith("statham.serializers") or f.module.name == "statham.schema.parser"):
            continue
        n_funcs += 1
        for x in walk_own(f.body):
            if isinstance(x, ast.Call) and dotted(x.func) in DEDUPERS and x.args:
                a_ = x.args[0]
                lit = [y for y in ast.walk(a_) if (isinstance(y, ast.Subscript) and isinstance(y.slice, ast.Constant)
                                                  and y.slice.value in ("enum", "const", "default"))
                       or (isinstance(y, ast.Attribute) and y.attr in ("enum", "const", "default"))]
                if lit:
                    res.violation(f, x, reason="a literal keyword value is passed through an equality-based de-duplication / ordering: "
                                               "Element(enum=[1, True]) would be emitted as {'enum': [1]}")
    res.floor("functions_scanned", n_funcs, 30)


# ---------------------------------------------------------------------- K3
LITERAL_NAMES = ("default", "const")


def _is_literal_kind(e):
    if isinstance(e, ast.Attribute) and e.attr in LITERAL_NAMES:
        return True
    if isinstance(e, ast.Name) and e.id in LITERAL_NAMES:
        return True
    if isinstance(e, ast.Subscript) and isinstance(e.slice, ast.Constant) and e.slice.value in LITERAL_NAMES:
        return True
    if isinstance(e, ast.Call) and isinstance(e.func, ast.Attribute) and e.func.attr == "get" and e.args \
            and isinstance(e.args[0], ast.Constant) and e.args[0].value in LITERAL_NAMES:
        return True
    if isinstance(e, ast.Call) and dotted(e.func) == "getattr" and len(e.args) >= 2 and isinstance(e.args[1], ast.Constant) \
            and e.args[1].value in LITERAL_NAMES:
        return True
    return False


def k3_core(ctx, res, funcs):
    n = 0
    for f in sorted(funcs, key=lambda f: f.qualname):
        P = Parents(f)
        for node in walk_own(f.body):
            if not isinstance(node, ast.expr) or not _is_literal_kind(node):
                continue
            if isinstance(getattr(node, "ctx", None), (ast.Store, ast.Del)):
                continue
            n += 1
            par = P.parent.get(id(node))
            fld = P.field.get(id(node))
            bad = None
            if isinstance(par, ast.BoolOp):
                bad = "operand of and/or"
            elif isinstance(par, ast.UnaryOp) and isinstance(par.op, ast.Not):
                bad = "operand of not"
            elif isinstance(par, (ast.If, ast.While, ast.IfExp)) and fld == "test":
                bad = "used as a condition"
            elif isinstance(par, ast.Call) and dotted(par.func) == "bool":
                bad = "argument of bool()"
            elif isinstance(par, ast.comprehension) and fld == "ifs":
                bad = "comprehension filter"
            elif isinstance(par, ast.Assert):
                bad = "asserted"
            if bad:
                st = P.enclosing_stmt(node)
                res.violation(f, st if st is not None else node, detail={"expression": norm(node), "how": bad},
                              reason="a JSON literal (default/const) is tested by truthiness: false, 0, '' and empty "
                                     "containers are meaningful values and would be treated as absent")
            else:
                res.ok(f, node, reason="literal is passed along / compared / tested against the not-passed marker only")
    return n


@rule("K3", "defaults and consts are never tested by truthiness")
def k3(ctx, res):
    n = k3_core(ctx, res, ctx.prog.all_funcs())
    res.floor("literal_kind_expressions", n, 40)
    fctx = fixture_ctx(ctx)
    fres = RuleResult("K3", "control")
    k3_core(fctx, fres, [fctx.func("k3_bad"), fctx.func("k3_ok")])
    bad = {o.site.split("::")[1] for o in fres.violations()}
    if bad != {"k3_bad"}:
        raise AnalysisError(f"K3 positive control failed: {sorted(bad)}")
    res.stat("positive_control", "k3_bad reported; k3_ok silent")


# ---------------------------------------------------------------------- K4
def _key_kind(e, js_names, py_names):
    """JS / PY / ? for a key expression."""
    t = norm(e)
    if isinstance(e, ast.Attribute) and e.attr == "source":
        return "JS"
    if isinstance(e, ast.Attribute) and e.attr == "name":
        return "PY"
    if isinstance(e, ast.BoolOp) and isinstance(e.op, ast.Or) and e.values and isinstance(e.values[0], ast.Attribute) \
            and e.values[0].attr == "source":
        return "JS"
    if isinstance(e, ast.Call) and dotted(e.func) == "_parse_attribute_name":
        return "PY"
    if isinstance(e, ast.Name):
        if e.id in js_names:
            return "JS"
        if e.id in py_names:
            return "PY"
    return "?"


@rule("K4", "JSON names and Python names are never mixed: look-ups by JSON name get JSON-named keys, emitted schemas use JSON names")
def k4(ctx, res):
    # S1: Properties.__call__ - everything merged into the iterated mapping is keyed like the input (JSON names)
    from .rules_g import props_call_model
    M = ctx.get("props_call_model", lambda c: props_call_model(c))
    pc = M["func"]
    v = M["v"]
    n = 0
    for ph in M["placeholders"]:
        n += 1
        res.judge(True if ph["key_kind"] == "JS" else (False if ph["key_kind"] == "PY" else None), pc,
                  f"placeholder key {ph.get('key', ph['elt'])}", detail={"kind": ph["key_kind"]},
                  reason="placeholders for omitted properties are merged with the input (keyed by JSON names) and "
                         "looked up by JSON (source) name: they must be keyed by the property's source, or a "
                         "renamed property never receives its default")
    vpc = M.get("body") or view(pc, ctx.prog, keep=(v,)).body
    for node in walk_own(vpc):
        if isinstance(node, ast.Dict) and node is M["merged"]:
            for sp in node.values:
                if isinstance(sp, ast.Call) and dotted(sp.func) == "dict.fromkeys" and sp.args:
                    n += 1
                    src = norm(sp.args[0])
                    it = pc.cls.methods.get("__iter__") if pc.cls is not None else None
                    self_iterates_props = it is not None and has("iter(self.props)", it)
                    py_keyed = src in ("self.props", "self.props.keys()", "list(self.props)") or (src == "self" and self_iterates_props)
                    res.judge(False if py_keyed else None, pc, f"placeholder keys: {norm(sp)[:60]}",
                              reason="placeholders for omitted properties are merged with the input (keyed by JSON names) and "
                                     "looked up by JSON (source) name: keyed by the Python attribute names, a renamed property "
                                     "never receives its default")
        elif isinstance(node, ast.Call) and isinstance(node.func, ast.Attribute) and norm(node.func.value) == v \
                and node.func.attr in ("setdefault", "update", "__setitem__"):
            n += 1
    res.floor("placeholder_merges", n, 1)
    # S2: serializer - "properties" is emitted under JSON names
    ser = view(ctx.func("_serialize_element"), ctx.prog, keep=("schema",))
    rekeyed = req_ok = None
    for b in builders(ser.body):
        it = norm(b.iter)
        if not (it.endswith(".items()") and "properties" in it and isinstance(b.target, ast.Tuple) and len(b.target.elts) == 2):
            continue
        nm, pr = norm(b.target.elts[0]), norm(b.target.elts[1])
        if b.kind == "dict" and norm(b.elt) == pr:
            good = _key_kind(b.key, set(), {nm}) == "JS" and not b.guards
            rekeyed = good if rekeyed is None else (rekeyed and good)
        if b.kind in ("list", "gen", "set") and any(g.endswith(".required") for g in b.guard_texts()):
            good = _key_kind(b.elt, set(), {nm}) == "JS"
            req_ok = good if req_ok is None else (req_ok and good)
    res.judge(rekeyed, ser, "schema['properties'] = {prop.source or name: prop for name, prop in schema['properties'].items()}",
              reason="the element's property mapping is keyed by Python attribute names; the emitted JSON Schema must be "
                     "keyed by the JSON (source) names")
    res.judge(req_ok, ser, "required members are prop.source or name", reason="`required` lists JSON names")
    # S3: object instances are populated under Python names
    ok = None
    if M["result"] is not None:
        k = norm(M["result"].target.elts[0])
        ok = norm(M["result"].key) == f"self[{k}].name or {k}"
    res.judge(ok, pc, "result key: self[key].name or key", reason="declared members are exposed under their Python names")
    # S4: the parser records the JSON name on every property it creates
    n_prop_calls = 0
    for f in [g for g in ctx.prog.all_funcs() if g.module.name == "statham.schema.parser"]:
        calls = [x for x in walk_own(f.body) if isinstance(x, ast.Call) and dotted(x.func) == "_Property"]
        for c in calls:
            n_prop_calls += 1
            src = [k for k in c.keywords if k.arg == "source"]
            res.check(bool(src), f, c, reason="a parsed property records its JSON name as `source`")
    res.floor("parser_property_constructions", n_prop_calls, 2)
    # S5: dict keys the parser gives property mappings are mapped (Python) names
    pp = ctx.func("_parse_properties")
    n_pp = 0
    vpp = view(pp, ctx.prog).body
    for b in builders(vpp):
        if b.kind == "dict" and b.key is not None:
            n_pp += 1
            kind = _key_kind(b.key, set(), set())
            if kind == "?" and isinstance(b.key, ast.Name):
                kinds = {_key_kind(st.value, set(), set()) for st in walk_own(vpp) if isinstance(st, (ast.Assign, ast.AnnAssign))
                         and st.value is not None and any(isinstance(t, ast.Name) and t.id == b.key.id for t in
                                                          (st.targets if isinstance(st, ast.Assign) else [st.target]))}
                if len(kinds) == 1:
                    kind = kinds.pop()
            res.judge(True if kind == "PY" else (False if kind == "JS" else None), pp, f"key {norm(b.key)}",
                      reason="property mappings are keyed by the mapped Python attribute name")
    res.floor("property_mapping_builders", n_pp, 1)


# ---------------------------------------------------------------------- K5
EMITTERS = ["ObjectMeta.python", "_Property.python", "_Property.__repr__", "Args.__repr__", "custom_repr",
            "_get_standard_imports", "_get_statham_imports", "_get_element_imports", "_get_imports", "serialize_python",
            "ObjectMeta.__repr__", "NotPassed.__repr__"]
SAFE_ATTRS = {"__name__", "name", "annotation"}
SANITISER_FUNCS = {"_docstring"}


def _safe_interp(e, f, ctx, depth=0):
    """Is the interpolated expression free of raw schema text?"""
    if depth > 16:
        return False, "too deep"
    if isinstance(e, ast.Constant):
        return True, "constant"
    if isinstance(e, ast.Starred):
        return _safe_interp(e.value, f, ctx, depth + 1)
    if isinstance(e, ast.JoinedStr):
        for v in e.values:
            if isinstance(v, ast.FormattedValue):
                ok, why = _safe_interp(v.value, f, ctx, depth + 1)
                if not ok and v.conversion != 114:
                    return False, why
        return True, "f-string of safe parts"
    if isinstance(e, ast.Call):
        d = dotted(e.func)
        if d == "repr":
            return True, "repr()"
        if d in SANITISER_FUNCS:
            if len(e.args) == 1 and isinstance(e.args[0], ast.Attribute) and not e.keywords:
                return True, f"escaping emitter {d} applied to the attribute itself"
            if len(e.args) == 1 and isinstance(e.args[0], ast.Name) and not e.keywords:
                binds = ctx.inf.bindings(f).get(e.args[0].id, [])
                if binds and all(b[0] == "assign" and isinstance(b[1], ast.Attribute) for b in binds):
                    return True, f"escaping emitter {d} applied to a local alias of the attribute"
            return False, f"{d}() is applied to a transformed value, not to the attribute itself"
        if isinstance(e.func, ast.Attribute) and e.func.attr == "python" and not e.args:
            return True, ".python() of a checked emitter"
        if isinstance(e.func, ast.Attribute) and e.func.attr == "join":
            args = e.args[0] if e.args else None
            if isinstance(args, (ast.ListComp, ast.GeneratorExp)):
                return _safe_interp(args.elt, f, ctx, depth + 1)
            if isinstance(args, (ast.List, ast.Tuple)):
                for x in args.elts:
                    ok, why = _safe_interp(x, f, ctx, depth + 1)
                    if not ok:
                        return False, why
                return True, "join of safe parts"
            if isinstance(args, ast.Name):
                return _safe_local(args.id, f, ctx, depth + 1)
            if isinstance(args, ast.Call) and isinstance(args.func, ast.Attribute) and args.func.attr in ("split", "splitlines"):
                return _safe_interp(args.func.value, f, ctx, depth + 1)
            if isinstance(args, ast.Call) and dotted(args.func) in ("filter", "sorted"):
                inner = args.args[-1]
                return _safe_interp(ast.Call(func=e.func, args=[inner], keywords=[]), f, ctx, depth + 1) \
                    if not isinstance(inner, ast.Name) else _safe_local(inner.id, f, ctx, depth + 1)
        if isinstance(e.func, ast.Attribute) and e.func.attr in ("lstrip", "rstrip", "strip", "lower", "upper", "split", "replace"):
            return _safe_interp(e.func.value, f, ctx, depth + 1)
        if d in ("custom_repr_args", "custom_repr", "sorted", "list"):
            return True, "checked emitter"
        if isinstance(e.func, ast.Name):
            r = ctx.prog.resolve_in(f, e.func.id)
            if r and r[0] == "func" and r[1].qualname in getattr(ctx, "_k5_emitters", ()):
                return True, "helper checked as an emitter itself"
        if d == "type":
            return True, "a class"
        return False, f"call {norm(e)[:40]}"
    if isinstance(e, ast.Attribute):
        if e.attr in SAFE_ATTRS:
            return True, f".{e.attr} (identifier / checked emitter)"
        if e.attr == "__class__":
            return True, "class"
        return False, f"raw attribute .{e.attr}"
    if isinstance(e, ast.Name):
        return _safe_local(e.id, f, ctx, depth + 1)
    if isinstance(e, ast.BinOp) and isinstance(e.op, ast.Add):
        a, wa = _safe_interp(e.left, f, ctx, depth + 1)
        b, wb = _safe_interp(e.right, f, ctx, depth + 1)
        return (a and b), (wa if not a else wb)
    if isinstance(e, ast.IfExp):
        a, wa = _safe_interp(e.body, f, ctx, depth + 1)
        b, wb = _safe_interp(e.orelse, f, ctx, depth + 1)
        return (a and b), (wa if not a else wb)
    if isinstance(e, (ast.List, ast.Tuple)):
        for x in e.elts:
            ok, why = _safe_interp(x, f, ctx, depth + 1)
            if not ok:
                return False, why
        return True, "display of safe parts"
    if isinstance(e, ast.ListComp):
        return _safe_interp(e.elt, f, ctx, depth + 1)
    if isinstance(e, ast.Subscript):
        return _safe_interp(e.value, f, ctx, depth + 1)
    return False, f"unrecognised {type(e).__name__}"


def _safe_local(name, f, ctx, depth):
    inf = ctx.inf
    g = f
    while g is not None:
        if name in g.locals():
            binds = inf.bindings(g).get(name, [])
            for b in binds:
                if b[0] == "param":
                    p = b[1]
                    if g.self_param() == p.name:
                        return True, "self/cls"
                    ann = norm(p.annotation) if p.annotation is not None else ""
                    if p.name in ("declaration", "declarations"):
                        continue  # text produced by the checked emitters themselves
                    if g.cls is None and g.name.startswith("_") and g.qualname in getattr(ctx, "_k5_emitters", ()) and depth < 12:
                        # a private helper of the emitters: the parameter is what its call sites pass
                        idx = [q.name for q in g.params].index(p.name)
                        found = 0
                        verdicts = []
                        for caller in inf.callers_of(g):
                            for site in inf.sites(caller)[0]:
                                if site.kind != "call" or getattr(site, "callee", None) is not g:
                                    continue
                                call = site.node
                                arg = None
                                if idx < len(call.args) and not any(isinstance(a, ast.Starred) for a in call.args[:idx + 1]):
                                    arg = call.args[idx]
                                for kw in call.keywords:
                                    if kw.arg == p.name:
                                        arg = kw.value
                                if arg is None:
                                    verdicts.append((False, f"parameter {name}: call site not understood"))
                                else:
                                    verdicts.append(_safe_interp(arg, caller, ctx, depth + 1))
                                found += 1
                        if found and all(v[0] for v in verdicts):
                            continue
                        if found:
                            return [v for v in verdicts if not v[0]][0]
                    return False, f"parameter {name}"
                if b[0] in ("assign", "aug"):
                    ok, why = _safe_interp(b[1], g, ctx, depth + 1)
                    if not ok:
                        return False, why
                elif b[0] == "iter":
                    it = b[1]
                    if isinstance(it, (ast.Tuple, ast.List)):
                        ok, why = _safe_interp(it, g, ctx, depth + 1)
                        if not ok:
                            return False, why
                    elif isinstance(it, ast.Name):
                        ok, why = _safe_local(it.id, g, ctx, depth + 1)
                        if not ok:
                            return False, why
                    else:
                        ok, why = _safe_interp(it, g, ctx, depth + 1)
                        if not ok:
                            return False, why
                elif b[0] == "unpack":
                    src = b[1]
                    if src[0] == "iter" and b[2] == 0 and isinstance(src[1], ast.Call) and isinstance(src[1].func, ast.Attribute) \
                            and src[1].func.attr == "items" and norm(src[1].func.value).endswith(".kwargs"):
                        continue  # keyword-argument names are identifiers by construction
                    return False, f"unpacked local {name}"
            # appended parts
            for n in walk_own(g.body):
                if isinstance(n, ast.Call) and isinstance(n.func, ast.Attribute) and norm(n.func.value) == name \
                        and n.func.attr in ("append", "extend", "insert"):
                    for a in n.args:
                        ok, why = _safe_interp(a, g, ctx, depth + 1)
                        if not ok:
                            return False, why
            return True, "local built from safe parts"
        g = g.parent
    return True, "global name"



def _literal_hazards(g, prog):
    """Which of the two characters that can end or alter a triple-quoted literal (backslash 'bs', double quote 'q') can
    reach each returned text of the escaping emitter unescaped.  Returns [(return node, hazards)]; None when unreadable."""
    if not g.params:
        return None
    param = g.params[0].name
    out = []
    unreadable = [False]

    def is_replace(e, a, b):
        return isinstance(e, ast.Call) and isinstance(e.func, ast.Attribute) and e.func.attr == "replace" and len(e.args) == 2 \
            and all(isinstance(x, ast.Constant) for x in e.args) and e.args[0].value == a and e.args[1].value == b

    def hz(e, env):
        if isinstance(e, ast.Name):
            return set(env.get(e.id, ()))
        if isinstance(e, ast.Constant):
            return set()
        if is_replace(e, "\\", "\\\\"):
            return hz(e.func.value, env) - {"bs"}
        if is_replace(e, '"', '\\"'):
            inner = hz(e.func.value, env)
            return inner - {"q"} if "bs" not in inner else inner
        if isinstance(e, (ast.GeneratorExp, ast.ListComp, ast.SetComp)):
            env2 = dict(env)
            for gen in e.generators:
                h = hz(gen.iter, env2)
                for t in ast.walk(gen.target):
                    if isinstance(t, ast.Name):
                        env2[t.id] = h
            return hz(e.elt, env2)
        if isinstance(e, ast.Compare) or (isinstance(e, ast.Call) and dotted(e.func) in ("len", "isinstance", "bool", "ord", "repr")):
            return set()
        if isinstance(e, ast.IfExp):
            return hz(e.body, env) | hz(e.orelse, env)
        acc = set()
        for c in ast.iter_child_nodes(e):
            if isinstance(c, ast.expr):
                acc |= hz(c, env)
            elif isinstance(c, ast.keyword):
                acc |= hz(c.value, env)
        return acc

    def refine(test, pol, env):
        env = dict(env)
        for t, p_ in flatten_guard(test, pol):
            c = cmp_atom(t, p_)
            # `ch not in text` (true) removes the hazard of that character from the tested name
            if isinstance(t, ast.Compare) and len(t.ops) == 1 and isinstance(t.comparators[0], ast.Name) \
                    and isinstance(t.left, ast.Constant) and t.left.value in ("\\", '"'):
                absent = isinstance(t.ops[0], ast.NotIn) == p_ if isinstance(t.ops[0], (ast.In, ast.NotIn)) else None
                if absent:
                    nm = t.comparators[0].id
                    env[nm] = set(env.get(nm, ())) - {"bs" if t.left.value == "\\" else "q"}
        return env

    def run(stmts, env):
        """returns env after the block, or None when every path exits"""
        for st in stmts:
            if isinstance(st, ast.Return):
                out.append((st, hz(st.value, env) if st.value is not None else set()))
                return None
            if isinstance(st, ast.Raise):
                return None
            if isinstance(st, (ast.Assign, ast.AnnAssign, ast.AugAssign)):
                if st.value is None:
                    continue
                h = hz(st.value, env)
                tgts = st.targets if isinstance(st, ast.Assign) else [st.target]
                for t in tgts:
                    if isinstance(t, ast.Name):
                        env[t.id] = (set(env.get(t.id, ())) | h) if isinstance(st, ast.AugAssign) else h
                    else:
                        unreadable[0] = True
                continue
            if isinstance(st, ast.If):
                a = run(st.body, refine(st.test, True, env))
                b = run(st.orelse, refine(st.test, False, env))
                if a is None and b is None:
                    return None
                if a is None:
                    env = b
                elif b is None:
                    env = a
                else:
                    env = {k: set(a.get(k, ())) | set(b.get(k, ())) for k in set(a) | set(b)}
                continue
            if isinstance(st, ast.Expr):
                continue
            if isinstance(st, (ast.For, ast.While)):
                # two rounds reach the fixed point of a union-only transfer over two flags
                for _ in range(3):
                    env2 = dict(env)
                    if isinstance(st, ast.For):
                        h = hz(st.iter, env2)
                        for t in ast.walk(st.target):
                            if isinstance(t, ast.Name):
                                env2[t.id] = h
                    r = run(st.body, env2)
                    if r is not None:
                        env = {k: set(env.get(k, ())) | set(r.get(k, ())) for k in set(env) | set(r)}
                continue
            unreadable[0] = True
        return env

    run(view(g, prog).body, {param: {"bs", "q"}})
    if unreadable[0]:
        return None
    return out


def k5_core(ctx, res, funcs):
    n = 0
    for f in funcs:
        for node in walk_own(f.body):
            if isinstance(node, ast.FormattedValue):
                n += 1
                if node.conversion == 114:  # !r
                    res.ok(f, node, reason="!r conversion")
                    continue
                ok, why = _safe_interp(node.value, f, ctx)
                if ok:
                    res.ok(f, f"{{{norm(node.value)}}}", reason=why)
                else:
                    res.violation(f, f"{{{norm(node.value)}}}", detail={"why": why},
                                  reason="schema-derived text is spliced into generated source without repr()/an escaping "
                                         "emitter: quotes, backslashes or newlines in it change or break the generated module")
    return n


@rule("K5", "schema text reaches generated source only through repr(), an escaping emitter, or as an identifier")
def k5(ctx, res):
    funcs = []
    for short in EMITTERS:
        got = ctx.prog.find_funcs(short)
        if not got:
            raise AnalysisError(f"emitter {short} vanished")
        funcs.append(got[0])
    # private helpers the emitters delegate to are emitters as well
    seen = {g.qualname for g in funcs}
    work = list(funcs)
    while work:
        g = work.pop()
        for site in ctx.inf.sites(g)[0]:
            c = getattr(site, "callee", None)
            if site.kind == "call" and c is not None and c.cls is None and c.short.startswith("_") \
                    and c.module.name.startswith("statham.") and c.qualname not in seen and c.short not in SANITISER_FUNCS \
                    and any(isinstance(x, (ast.JoinedStr,)) for x in walk_own(c.body)):
                seen.add(c.qualname)
                funcs.append(c)
                work.append(c)
    ctx._k5_emitters = seen
    n = k5_core(ctx, res, funcs)
    res.floor("interpolations_in_emitters", n, 12)
    # the escaping emitter, when present, really escapes backslashes and the quote character
    for name in SANITISER_FUNCS:
        for g in ctx.prog.find_funcs(name):
            src = norm(g.node)
            ok = ("replace('\\\\', '\\\\\\\\')" in src) and ("replace('\"', '\\\\\"')" in src)
            hz = _literal_hazards(g, ctx.prog)
            if hz is None or not hz:
                res.judge(True if ok else None, g, "escapes backslash and double quote",
                          reason="the docstring emitter escapes the two characters that can end or alter a triple-quoted literal")
                res.judge(None, g, "every returned literal is built from the escaped text")
            else:
                bad = [(r, h) for r, h in hz if h]
                res.judge(not bad, g, "every returned literal is built from the escaped text",
                          detail={"returns": len(hz), "unescaped": [{"line": r.lineno, "return": norm(r)[:80], "reaches_raw": sorted(h)} for r, h in bad]},
                          reason="a backslash or double quote of the description reaches the generated literal without its escape "
                                 "(a raw literal cannot end in a backslash either): the module no longer compiles or the docstring differs")
            # characters copied raw into the literal: decided over all code points
            from .rules_rna import _char_pred
            import sys as _sys
            verdict = None
            detail = {}
            for node in walk_own(view(g, ctx.prog).body):
                if isinstance(node, (ast.GeneratorExp, ast.ListComp)) and len(node.generators) == 1 and isinstance(node.elt, ast.IfExp) \
                        and isinstance(node.generators[0].target, ast.Name):
                    var = node.generators[0].target.id
                    e = node.elt
                    raw_when = None
                    if norm(e.body) == var:
                        raw_when = _char_pred(e.test, var)
                    elif norm(e.orelse) == var:
                        inner = _char_pred(e.test, var)
                        raw_when = None if inner is None else (lambda c, inner=inner: not inner(c))
                    if raw_when is None:
                        continue
                    bad = [cp for cp in range(_sys.maxunicode + 1)
                           if (cp in (0x0D, 0x00) or 0xD800 <= cp <= 0xDFFF) and raw_when(chr(cp))]
                    verdict = not bad
                    detail = {"kept_raw_but_altered_by_the_tokenizer": [f"U+{cp:04X}" for cp in bad[:5]]}
            res.judge(verdict, g, "characters written raw into the generated docstring", detail=detail,
                      reason="a carriage return written raw into the source is normalised to a newline when the module is "
                             "compiled (and NUL / lone surrogates cannot be in source at all): the class docstring no longer "
                             "equals the description")
    fctx = fixture_ctx(ctx)
    fres = RuleResult("K5", "control")
    k5_core(fctx, fres, [fctx.func("k5_bad"), fctx.func("k5_ok")])
    bad = {o.site.split("::")[1] for o in fres.violations()}
    if bad != {"k5_bad"}:
        raise AnalysisError(f"K5 positive control failed: {sorted(bad)}")
    res.stat("positive_control", "k5_bad reported; k5_ok silent")


# ---------------------------------------------------------------------- K6
def _normalised_locals(f):
    """locals holding replace_bool-normalised data"""
    out = set()
    for pat in ("MV_a = replace_bool(MV_x)", "MV_a = list(map(replace_bool, MV_x))", "MV_a = [replace_bool(MV_i) for MV_i in MV_x]",
                "MV_a = tuple(map(replace_bool, MV_x))"):
        for node, b in find(pat, f):
            out.add(name_of(b["MV_a"]))
    return out


@rule("K6", "const / enum / uniqueItems compare with bool-aware, deep JSON equality")
def k6(ctx, res):
    from .norm import _private_callee
    count = [0]

    def is_normed(x, normed):
        return (isinstance(x, ast.Name) and x.id in normed) or (isinstance(x, ast.Call) and dotted(x.func) == "replace_bool")

    def returns_only_len(h):
        rets = [r for r in walk_own(h.body) if isinstance(r, ast.Return)]
        return bool(rets) and all(r.value is not None and isinstance(r.value, ast.Call) and dotted(r.value.func) == "len" for r in rets)

    def scan(f, normed, depth=0):
        normed = set(normed) | _normalised_locals(f)
        len_locals = set()
        for st in walk_own(f.body):
            if isinstance(st, ast.Assign) and len(st.targets) == 1 and isinstance(st.targets[0], ast.Name) \
                    and isinstance(st.value, ast.Call) and dotted(st.value.func) == "len":
                len_locals.add(st.targets[0].id)
        helpers = {}
        for node in walk_own(f.body):
            if isinstance(node, ast.Call) and depth < 2:
                h, mapping = _private_callee(node, f, ctx.prog)
                if h is not None and h is not f:
                    helpers[id(node)] = h
                    hn = {p for p, a in mapping.items() if is_normed(a, normed)}
                    scan(h, hn, depth + 1)
        for node in walk_own(f.body):
            operands = []
            if isinstance(node, ast.Compare) and any(isinstance(o, (ast.Eq, ast.NotEq, ast.In, ast.NotIn)) for o in node.ops):
                operands = [node.left] + list(node.comparators)

                def lenlike(x):
                    return (isinstance(x, ast.Call) and dotted(x.func) == "len") or isinstance(x, ast.Constant) or \
                        (isinstance(x, ast.Name) and (x.id == "length" or x.id in len_locals)) or \
                        (isinstance(x, ast.Call) and id(x) in helpers and returns_only_len(helpers[id(x)]))
                if all(lenlike(x) for x in operands):
                    continue
            elif isinstance(node, ast.Call) and dotted(node.func) in ("set", "remove_duplicates", "frozenset", "sorted", "Counter") \
                    and node.args:
                operands = [node.args[0]]
            for x in operands:
                if isinstance(x, ast.Call) and dotted(x.func) == "len":
                    continue
                if isinstance(x, ast.Name) and x.id in len_locals:
                    continue
                count[0] += 1
                res.check(is_normed(x, normed), f, f"operand {norm(x)[:60]} of {type(node).__name__}",
                          reason="both sides of a JSON equality / membership / de-duplication are normalised by replace_bool "
                                 "(Python's == conflates true with 1 and false with 0)")

    for cname in ("Const", "Enum", "UniqueItems"):
        f = ctx.cls(cname).methods.get("_validate")
        if f is None:
            raise AnalysisError(f"{cname}._validate vanished")
        scan(f, set())
    n = count[0]
    res.floor("equality_operands", n, 6)
    rb = ctx.func("replace_bool")
    v = rb.params[0].name
    rec_list = has(f"[replace_bool(MV_i) for MV_i in {v}]", rb) or has(f"list(map(replace_bool, {v}))", rb)
    rec_dict = has(f"{{MV_k: replace_bool(MV_x) for MV_k, MV_x in {v}.items()}}", rb)
    for b_ in builders(view(rb, ctx.prog).body):
        if b_.guards:
            continue
        if b_.kind == "list" and norm(b_.iter) == v and norm(b_.elt) == f"replace_bool({norm(b_.target)})":
            rec_list = True
        if b_.kind == "dict" and norm(b_.iter) == f"{v}.items()" and isinstance(b_.target, ast.Tuple) and len(b_.target.elts) == 2 \
                and norm(b_.key) == norm(b_.target.elts[0]) and norm(b_.elt) == f"replace_bool({norm(b_.target.elts[1])})":
            rec_dict = True
    res.check(rec_list and rec_dict, rb, "replace_bool recurses into lists and dicts",
              reason="nested true/false must be distinguished from 1/0 as well: [true] is not equal to [1] in JSON")


@rule("K6b", "element equality compares literal keywords with bool-aware JSON equality")
def k6b(ctx, res):
    eq = ctx.func("Element.__eq__")
    helpers = list(eq.lambdas) + list(eq.nested.values())
    for site in ctx.inf.sites(eq)[0]:
        if site.kind == "call" and site.callee.module is eq.module:
            helpers.append(site.callee)
    uses = has("replace_bool(MV__)", eq) or any(has("replace_bool(MV__)", g.node) for g in helpers)
    res.check(uses, eq, "pub_vars(self) == pub_vars(other)",
              reason="Element.__eq__ compares const/enum/default with Python ==, so Element(const=1) == Element(const=True) "
                     "although they accept different values")


# ---------------------------------------------------------------------- K7
@rule("K7", "literal keywords are copied with exactly the auto-title annotation removed")
def k7(ctx, res):
    f = ctx.func("_parse_literal")
    v = f.params[0].name
    vb = view(f, ctx.prog).body

    def rec(e):
        ia = isinstance_atom(e)
        if ia and ia[0] == v:
            if sorted(ia[1]) == ["dict", "list"]:
                return ("CONTAINER", ia[2])
            if ia[1] == ["list"]:
                return ("LIST", ia[2])
            if ia[1] == ["dict"]:
                return ("DICT", ia[2])
        return None

    def classify(p):
        if p.exit != "return":
            return p.exit
        e = p.exit_node.value
        if isinstance(e, ast.Name) and e.id != v:
            from .paths import ret_expr
            r_ = ret_expr(p)
            # a result variable of the single-exit style; accumulators (built by a loop) stay names
            if r_ is not None and not isinstance(r_, (ast.Dict, ast.List)):
                e = r_
        if norm(e) == v:
            return "unchanged"
        if match(_parse(f"[_parse_literal(MV_x) for MV_x in {v}]"), e) is not None:
            return "list-recursive"
        if isinstance(e, ast.DictComp) and len(e.generators) == 1:
            g = e.generators[0]
            if norm(g.iter) == f"{v}.items()" and isinstance(g.target, ast.Tuple):
                k, x = norm(g.target.elts[0]), norm(g.target.elts[1])
                conds = [norm(c) for c in g.ifs]
                if norm(e.key) == k and norm(e.value) == f"_parse_literal({x})":
                    if conds == [f"{k} != '_x_autotitle'"]:
                        return "dict-recursive-minus-autotitle"
                    return "dict-recursive-filter:" + " and ".join(conds)
        if isinstance(e, ast.Name):
            for b in builders(vb):
                if b.name == e.id and b.kind == "dict" and norm(b.iter) == f"{v}.items()" and isinstance(b.target, ast.Tuple):
                    k, x = norm(b.target.elts[0]), norm(b.target.elts[1])
                    if b.key is not None and norm(b.key) == k and norm(b.elt) == f"_parse_literal({x})":
                        gt = b.guard_texts()
                        if gt == [f"{k} != '_x_autotitle'"] or gt == [f"not {k} == '_x_autotitle'"]:
                            return "dict-recursive-minus-autotitle"
                        return "dict-recursive-filter:" + " and ".join(gt)
                if b.name == e.id and b.kind == "list" and norm(b.iter) == v and norm(b.elt) == f"_parse_literal({norm(b.target)})" and not b.guards:
                    return "list-recursive"
        return "other:" + norm(e)[:60]
    table, opaque = decision_table(vb, ["CONTAINER", "LIST", "DICT"], rec, classify)
    good = True
    bad = {}
    for (cont, lst, dct), labels in table.items():
        if lst and dct:
            continue
        if (lst or dct) and not cont:
            continue
        if cont and not (lst or dct):
            continue
        want = {"list-recursive"} if lst else {"dict-recursive-minus-autotitle"} if dct else {"unchanged"}
        if labels != want:
            good = False
            bad[str((cont, lst, dct))] = sorted(labels)
    res.judge(True if good else (None if opaque else False), f,
              "scalar -> unchanged; list -> every member recursively; dict -> every member recursively except key '_x_autotitle'",
              detail={"opaque": sorted(opaque), "mismatches": bad},
              reason="only the key `_x_autotitle` is stripped from a literal; everything else is kept, in order, recursively")
    pe = ctx.func("parse_element")
    ok = None
    for n in walk_own(view(pe, ctx.prog).body):
        if isinstance(n, ast.For) and str_elts(deref_const(ctx, pe, n.iter)) is not None \
                and {"default", "const", "enum"} & set(str_elts(deref_const(ctx, pe, n.iter))):
            k = norm(n.target)
            if has(f"schema[{k}] = _parse_literal(schema[{k}])", n.body) or has(f"schema[{k}] = _parse_literal(MV_x)", n.body):
                ok = set(str_elts(deref_const(ctx, pe, n.iter))) == {"default", "const", "enum"} \
                    and has(f"if {k} in schema:\n    schema[{k}] = _parse_literal(schema[{k}])", n.body)
    res.judge(ok, pe, "for literal_key in ('default', 'const', 'enum'): schema[k] = _parse_literal(schema[k])",
              reason="exactly the three literal keywords are cleaned, and only when present")


# ---------------------------------------------------------------------- K8
@rule("K8", "the parser builds a new element for every schema occurrence (nothing cached or shared that is later written)")
def k8(ctx, res):
    from . import effects
    ef = ctx.get("effects", effects.build)
    parser = ctx.prog.by_relpath.get("statham/schema/parser.py")
    inf = ctx.inf
    n = 0
    for f in sorted(parser.funcs.values(), key=lambda f: f.qualname):
        if not (f.name.startswith("_parse") or f.name in ("parse_element", "_compose_elements")):
            continue
        if f.name in ("_parse_attribute_name", "_parse_literal"):
            continue
        params = {p.name for p in f.params}
        for node in walk_own(f.body):
            if not isinstance(node, ast.Return) or node.value is None:
                continue
            e = node.value
            n += 1
            if isinstance(e, ast.IfExp):
                # `return a if c else b`: both alternatives are returns of their own
                alts = [e.body, e.orelse]
                okalts = True
                for alt in alts:
                    base = alt
                    while isinstance(base, ast.Subscript):
                        base = base.value
                    if isinstance(base, ast.Name) and base.id in params:
                        continue
                    if isinstance(alt, ast.Call):
                        cs = [s_.callee for s_ in inf.sites(f)[0] if s_.node is alt and s_.kind == "call"]
                        if cs and all((c.module is parser and (c.name.startswith("_parse") or c.name in (
                                "parse_element", "_compose_elements", "dedupe"))) or c.short == "reraise._decorator._wrapper" for c in cs):
                            continue
                    v_alt = ef.val(alt, f)
                    sh = {a for a in v_alt.own if a != effects.F}
                    if sh and not all(isinstance(a, tuple) and a[1].params[a[2]].name in ("schema", "literal", "elements", "type_list")
                                      for a in sh):
                        okalts = False
                if okalts:
                    res.ok(f, node, reason="each alternative delegates, hands back its argument, or is fresh")
                    continue
            # delegation to another parser function
            if isinstance(e, ast.Call):
                callees = [s.callee for s in inf.sites(f)[0] if s.node is e and s.kind == "call"]
                if callees and all(c.module is parser and (c.name.startswith("_parse") or c.name in ("parse_element", "_compose_elements", "_wrapper", "dedupe"))
                                   or c.short == "reraise._decorator._wrapper" for c in callees):
                    res.ok(f, node, reason="delegates to another parser function")
                    continue
            # pass-through of a parameter or of a member of one
            base = e
            while isinstance(base, ast.Subscript):
                base = base.value
            if isinstance(base, ast.Name) and base.id in params:
                res.ok(f, node, reason="hands back (a member of) its own argument")
                continue
            def is_delegation(x):
                if not isinstance(x, ast.Call):
                    return False
                cs = [s_.callee for s_ in inf.sites(f)[0] if s_.node is x and s_.kind == "call"]
                return bool(cs) and all((c.module is parser and (c.name.startswith("_parse") or c.name in (
                    "parse_element", "_compose_elements", "dedupe"))) or c.short == "reraise._decorator._wrapper" for c in cs)
            if isinstance(e, ast.Name) and e.id in f.locals():
                vals = []
                for b in inf.bindings(f).get(e.id, []):
                    if b[0] == "assign" and is_delegation(b[1]):
                        continue
                    if b[0] == "assign":
                        vals.append(ef.val(b[1], f))
                    else:
                        vals.append(ef.val(e, f))
                v = effects.joinall(vals) if vals else effects.FRESHV
            else:
                v = ef.val(e, f)
            shared = {a for a in v.own if a != effects.F}
            only_schema = all(isinstance(a, tuple) and a[1].params[a[2]].name in ("schema", "literal", "elements", "type_list") for a in shared)
            res.check(not shared or only_schema, f, node, detail={"owner": effects.fmt_atoms(v.own)},
                      reason="the returned element is built in this call (fresh) - not taken from the parse state or a "
                             "module-level cache, where a later `element.default = ...` would leak into unrelated elements")
    res.floor("parser_returns", n, 14)



# ---------------------------------------------------------------------- K9
@rule("K9", "an object's description is carried verbatim: class keyword <-> docstring <-> emitted docstring")
def k9(ctx, res):
    isc = ctx.func("Object.__init_subclass__")
    stores = [n for n in walk_own(isc.body) if isinstance(n, ast.Assign) and any(norm(t) == "cls.description" for t in n.targets)]
    verdict = None
    if stores:
        verdict = all(norm(n.value) == "cls.__doc__" for n in stores)
    res.judge(verdict, isc, "cls.description = cls.__doc__",
              reason="the description read back from a generated class is the docstring itself, not a cleaned / re-indented copy")
    # the store happens whenever a docstring exists: an existence test, not a truthiness test ('' is a description too)
    P = Parents(isc)
    gverdict = None
    for n in stores:
        gs = flat_guards(P, n)
        on_doc = [(t, pol) for t, pol in gs if "__doc__" in norm(t)]
        if not on_doc:
            gverdict = True if gverdict is None else gverdict
            continue
        for t, pol in on_doc:
            c = cmp_atom(t, pol)
            if c and c[0] == "cls.__doc__" and c[2] == "None" and c[1] in ("is not", "!="):
                gverdict = True if gverdict is None else gverdict
            elif norm(strip_not(t, pol)[0]) == "cls.__doc__" and strip_not(t, pol)[1]:
                gverdict = False   # `if cls.__doc__` : the empty description is dropped
            else:
                gverdict = None if gverdict is not False else False
    res.judge(gverdict, isc, "if cls.__doc__ is not None: cls.description = cls.__doc__",
              reason="the generated class carries the description only as its docstring; an EMPTY description is emitted as an "
                     "empty docstring, which a truthiness test refuses to read back (description '' becomes not-passed: the "
                     "executed class differs from the parsed one)")
    py = ctx.func("ObjectMeta.python")
    uses = [n for n in walk_own(view(py, ctx.prog).body) if isinstance(n, ast.FormattedValue) and "description" in norm(n.value)]
    ok = None
    if uses:
        ok = all(norm(u.value) in ("_docstring(cls.description)", "repr(cls.description)") or u.conversion == 114 for u in uses)
    res.judge(ok, py, "docstring emitted from cls.description itself", reason="the emitted docstring is built from the unmodified description")
