"""Static reading of regular-expression *constants* found in the repository:
the pattern text is parsed with the standard library's own regex parser
(`re._parser`) and only its syntax tree is inspected - no matching is run."""
import re._constants as sc
import re._parser as sp


def parse(pattern):
    try:
        return list(sp.parse(pattern))
    except Exception:  # malformed pattern: the caller reports "cannot interpret"
        return None


_CATS = {
    "CATEGORY_DIGIT": lambda c: c.isdecimal(),
    "CATEGORY_NOT_DIGIT": lambda c: not c.isdecimal(),
    "CATEGORY_WORD": lambda c: c.isalnum() or c == "_",
    "CATEGORY_NOT_WORD": lambda c: not (c.isalnum() or c == "_"),
    "CATEGORY_SPACE": lambda c: c.isspace(),
    "CATEGORY_NOT_SPACE": lambda c: not c.isspace(),
}


def _in_pred(items):
    neg = False
    parts = []
    for op, av in items:
        if op is sc.NEGATE:
            neg = True
        elif op is sc.RANGE:
            lo, hi = av
            parts.append(lambda c, lo=lo, hi=hi: lo <= ord(c) <= hi)
        elif op is sc.LITERAL:
            parts.append(lambda c, av=av: ord(c) == av)
        elif op is sc.CATEGORY and str(av) in _CATS:
            parts.append(_CATS[str(av)])
        else:
            return None
    if neg:
        return lambda c: not any(p(c) for p in parts)
    return lambda c: any(p(c) for p in parts)


def position_pred(node):
    """Predicate over one character for a node that consumes exactly one
    character (class, literal, dot); None otherwise."""
    op, av = node
    if op is sc.IN:
        return _in_pred(av)
    if op is sc.LITERAL:
        return lambda c: ord(c) == av
    if op is sc.NOT_LITERAL:
        return lambda c: ord(c) != av
    if op is sc.ANY:
        return lambda c: c != "\n"
    if op is sc.SUBPATTERN and av[-1] is not None and len(av[-1]) == 1:
        return position_pred(list(av[-1])[0])
    return None


def single_class(pattern):
    """Predicate if the whole pattern is one character class; else None."""
    t = parse(pattern)
    if t is None or len(t) != 1:
        return None
    return position_pred(t[0])


def first_class(pattern):
    """Predicate for the character a match must start with, when the pattern
    begins with a mandatory single-character position; else None."""
    t = parse(pattern)
    if not t:
        return None
    return position_pred(t[0])
