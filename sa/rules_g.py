"""Guard-table rules G1-G12 (DESIGN section 3): small functions whose branch
structure is compared, over named abstract atoms, with the behaviour the
property needs."""
import ast

from .core import rule
from .model import AnalysisError, dotted, norm, walk_own
from .paths import (resolve_on_path, Parents, guards_of, flat_guards, flatten_guard, np_atom, strip_not, cmp_atom, swap_cmp, isinstance_atom,
                    enumerate_paths, decision_table, resolve_local, always_exits, eval3, handlers_of, inline_call, ret_expr)
from .pat import has, find, first, name_of, match, _parse
from .rules_t import validator_classes, class_keywords, kwonly, own_init, element_family


from .norm import view, nbody, builders, find_builder, strings_reaching, path_signatures, View


def V(ctx, func, keep=()):
    return view(func, ctx.prog, keep)


def matches_any(e, patterns):
    for ptxt in patterns:
        if match(_parse(ptxt), e) is not None:
            return True
    return False


def atom_rec(specs):
    """Recogniser for decision tables from expression patterns.
    specs: {atom_name: [expression patterns]}.  A bare expression matching a
    pattern is the atom's truthiness; `len(<expr>) == 0` etc. are mapped to
    (atom, False) / ("<atom>#ONE", ...) / ("<atom>#MANY", ...)."""
    def rec(e):
        t, pol = strip_not(e)
        for name, pats in specs.items():
            if matches_any(t, pats):
                return (name, pol)
        c = cmp_atom(e)
        if c:
            left, op, right = c[3], c[1], c[2]
            if isinstance(left, ast.Call) and dotted(left.func) == "len" and len(left.args) == 1:
                for name, pats in specs.items():
                    if matches_any(left.args[0], pats):
                        if (op, right) in (("==", "0"), ("<", "1"), ("<=", "0")):
                            return (name, False)
                        if (op, right) in ((">", "0"), (">=", "1"), ("!=", "0")):
                            return (name, True)
                        if (op, right) in (("==", "1"),):
                            return (name + "#ONE", True)
                        if (op, right) in (("!=", "1"),):
                            return (name + "#ONE", False)
                        if (op, right) in ((">", "1"), (">=", "2")):
                            return (name + "#MANY", True)
                        if (op, right) in (("<=", "1"), ("<", "2")):
                            return (name + "#MANY", False)
        return None
    return rec


def calls_matching(stmts, pattern):
    out = []
    for st in stmts:
        if isinstance(st, ast.AST):
            out += find(pattern, st)
    return out


def _raises_validation(path):
    return path.exit == "raise" and path.exit_node is not None and "ValidationError" in norm(path.exit_node)


def exc_handler_names(h):
    if h.type is None:
        return ["<bare>"]
    t = h.type
    return sorted(norm(x) for x in (t.elts if isinstance(t, ast.Tuple) else [t]))


# ---------------------------------------------------------------------- G1
BOUNDS = {
    "Minimum": ("{v}", "<", "minimum"), "Maximum": ("{v}", ">", "maximum"),
    "ExclusiveMinimum": ("{v}", "<=", "exclusiveMinimum"), "ExclusiveMaximum": ("{v}", ">=", "exclusiveMaximum"),
    "MinLength": ("len({v})", "<", "minLength"), "MaxLength": ("len({v})", ">", "maxLength"),
    "MinItems": ("len({v})", "<", "minItems"), "MaxItems": ("len({v})", ">", "maxItems"),
    "MinProperties": ("len({v})", "<", "minProperties"), "MaxProperties": ("len({v})", ">", "maxProperties"),
}


def _norm_cmp(test, pol, func):
    c = cmp_atom(test, pol)
    if not c:
        return None
    left = norm(resolve_local(c[3], func))
    right = norm(resolve_local(c[4], func))
    return left, c[1], right


@rule("G1", "bound and length validators reject on exactly the comparison Draft 6 prescribes (boundary included)")
def g1(ctx, res):
    _g1_multipleof_exact(ctx, res)
    for cname, (subj, op, kw) in sorted(BOUNDS.items()):
        c = ctx.cls(cname)
        f = c.methods.get("_validate")
        if f is None:
            raise AnalysisError(f"{cname}._validate vanished")
        v = f.params[1].name
        want = (subj.format(v=v), op, f"self.params[{kw!r}]")
        paths = enumerate_paths(V(ctx, f).body)
        raising = [p for p in paths if _raises_validation(p)]
        other = [p for p in paths if not _raises_validation(p)]
        ok = False
        found = []
        if len(raising) == 1 and len(raising[0].conds) == 1 and not isinstance(raising[0].conds[0][0], str):
            t, pol = raising[0].conds[0]
            got = _norm_cmp(t, pol, f)
            found.append(got)
            if got:
                flipped = (got[2], swap_cmp(got[1]), got[0])
                ok = got == want or flipped == want
        ok = ok and all(p.exit in ("fall", "return") for p in other)
        verdict = ok
        if not ok and not (found and found[0]):
            verdict = None  # no single comparison recognised: cannot judge
        res.judge(verdict, f, f"raise ValidationError iff {want[0]} {want[1]} {want[2]}", detail={"found": found},
                  reason="the rejecting comparison (operator and boundary) equals the Draft-6 definition of the keyword")
    # G1b AdditionalItems
    ai = ctx.cls("AdditionalItems").methods["_validate"]
    v = ai.params[1].name

    def rec(e):
        e2 = resolve_local(e, ai)
        ia = isinstance_atom(e2)
        if ia and ia[0] == "self.params['items']" and ia[1] == ["list"]:
            return ("ISLIST", ia[2])
        c = cmp_atom(e2)
        if c:
            l, o, r = c[0], c[1], c[2]
            if (l, r) == (f"len(self.params['items'])", f"len({v})"):
                l, o, r = r, swap_cmp(o), l
            if (l, r) == (f"len({v})", "len(self.params['items'])"):
                if o == "<=":
                    return ("LONGER", False)
                if o == ">":
                    return ("LONGER", True)
        t, pol = strip_not(e2)
        if norm(t) == "self.params['additionalItems']":
            return ("ADDL", pol)
        return None

    table, opaque = decision_table(V(ctx, ai).body, ["ISLIST", "LONGER", "ADDL"], rec,
                                   lambda p: "raise" if _raises_validation(p) else "accept")
    good = True
    for (islist, longer, addl), labels in table.items():
        want = {"raise"} if (islist and longer and not addl) else {"accept"}
        if labels != want:
            good = False
    res.judge(None if (opaque and good) else good, ai, "raise iff items is a list and len(value) > len(items) and not additionalItems",
              detail={"opaque": sorted(opaque), "table": {str(k): sorted(v) for k, v in table.items()}},
              reason="tuple items: values beyond the tuple are rejected exactly when additionalItems is false")


# --------------------------------------------------------------------- G1c
@rule("G1c", "required / dependencies / contains / propertyNames decide as Draft 6 prescribes")
def g1c(ctx, res):
    rq = ctx.cls("Required").methods["_validate"]
    v = rq.params[1].name
    req = "self.params['required']"
    vb = V(ctx, rq)
    missing_atoms = {"MISSING": [f"set({req}) - set({v})", f"set({req}).difference({v})", f"set({req}).difference(set({v}))",
                                 f"any((MV_r not in {v} for MV_r in {req}))", f"[MV_r for MV_r in {req} if MV_r not in {v}]"],
                     "ALLPRESENT": [f"set({req}) <= set({v})", f"set({req}).issubset({v})", f"set({req}).issubset(set({v}))",
                                    f"all((MV_r in {v} for MV_r in {req}))", f"set({v}) >= set({req})",
                                    f"set({v}).issuperset({req})"]}
    rec0 = atom_rec(missing_atoms)

    def rec(e):
        r = rec0(e)
        if r and r[0] == "ALLPRESENT":
            return ("MISSING", not r[1])
        return r
    table, opaque = decision_table(vb.body, ["MISSING"], rec, lambda p: "raise" if _raises_validation(p) else "accept")
    good = table == {(True,): {"raise"}, (False,): {"accept"}}
    wrong_shapes = [f"set({req}) & set({v})", f"set({req}).intersection({v})", f"set({req}).isdisjoint({v})",
                    f"any((MV_r in {v} for MV_r in {req}))", f"set({req}) == set({v})", f"set({req}) >= set({v})"]
    if not good and any(has(w, vb.body) for w in wrong_shapes):
        opaque = set()  # a recognised but different relation between required names and keys
    res.judge(None if (opaque and not good) else good, rq, "raise iff some required name is not a key of the value",
              detail={"opaque": sorted(opaque), "table": {str(k): sorted(x) for k, x in table.items()}},
              reason="required rejects exactly when a listed name is missing")

    # Dependencies: per (key, dep) - key present & list => Required rule; key present & schema => schema must accept; absent => nothing
    dp = ctx.cls("Dependencies").methods["_validate"]
    v = dp.params[1].name
    vb = V(ctx, dp)
    loops = [n for n in vb.body if isinstance(n, ast.For)]
    verdict = None
    detail = {}
    if len(loops) == 1 and has("self.params['dependencies'].items()", loops[0].iter) and isinstance(loops[0].target, ast.Tuple) \
            and len(loops[0].target.elts) == 2 and not loops[0].orelse:
        lp = loops[0]
        k, d = norm(lp.target.elts[0]), norm(lp.target.elts[1])

        def rec_d(e):
            c = cmp_atom(e)
            if c and c[0] == k and c[2] == v and c[1] in ("in", "not in"):
                return ("PRESENT", c[1] == "in")
            ia = isinstance_atom(e)
            if ia and ia[0] == d and ia[1] == ["list"]:
                return ("ISLIST", ia[2])
            return None

        def classify(p):
            acts = set()
            for st in p.stmts:
                if isinstance(st, ast.AST):
                    if has(f"Required({d})._validate({v})", st):
                        acts.add("REQUIRED")
                    if has(f"self.validate_schema_dependency({d}, {v})", st) or has(f"Dependencies.validate_schema_dependency({d}, {v})", st) \
                            or has(f"type(self).validate_schema_dependency({d}, {v})", st):
                        acts.add("SCHEMA")
            if p.exit in ("return", "break", "raise"):
                acts.add("EXIT:" + p.exit)
            return "+".join(sorted(acts)) or "nothing"
        table, opaque = decision_table(lp.body, ["PRESENT", "ISLIST"], rec_d, classify)
        want = {(True, True): {"REQUIRED"}, (True, False): {"SCHEMA"}, (False, True): {"nothing"}, (False, False): {"nothing"}}
        detail = {"opaque": sorted(opaque), "table": {str(kk): sorted(x) for kk, x in table.items()}}
        verdict = (table == want) if not opaque or table != want and not opaque else (True if table == want else None)
        if table != want and not opaque:
            verdict = False
        after = vb.body[vb.body.index(lp) + 1:]
        if any(not isinstance(x, (ast.Return, ast.Pass)) for x in after) or any(isinstance(x, ast.Return) and x.value is not None for x in after):
            verdict = None if verdict else verdict
    if verdict is None:
        dep_names = set()
        for node, b in find("MV_d = self.params['dependencies'].get(MV_k)", vb.body):
            dep_names.add(name_of(b["MV_d"]))
        for node, b in find("MV_d = self.params['dependencies'].get(MV_k, MV__)", vb.body):
            dep_names.add(name_of(b["MV_d"]))
        for n in walk_own(vb.body):
            if isinstance(n, ast.For) and isinstance(n.target, ast.Tuple) and len(n.target.elts) == 2 and "dependencies" in norm(n.iter):
                dep_names.add(norm(n.target.elts[1]))
        for n in walk_own(vb.body):
            if isinstance(n, (ast.If, ast.IfExp)):
                t, _pol = strip_not(n.test)
                if (isinstance(t, ast.Name) and t.id in dep_names) or matches_any(t, [
                        "self.params['dependencies'].get(MV_k)", "self.params['dependencies'].get(MV_k, MV__)",
                        "self.params['dependencies'][MV_k]"]):
                    verdict = False  # a dependency schema tested by truthiness: the false schema is falsy
    res.judge(verdict, dp, "for each dependency whose key is present: list => Required rule, schema => must validate", detail=detail,
              reason="a dependency applies exactly when its key is in the value; every dependency is visited")
    vs = ctx.func("Dependencies.validate_schema_dependency")
    res.judge(_try_semantics(ctx, vs, call_pats=["MV_d(MV_v)"], on_success={"fall", "return"}, on_failure={"raise"}), vs,
              "try: dependency(value) except (TypeError, ValidationError): raise ValidationError",
              reason="a schema dependency rejects exactly when the dependent schema rejects the whole value")

    ct = ctx.cls("Contains").methods["_validate"]
    v = ct.params[1].name
    verdict_ct = _loop_try_semantics(ctx, ct, v, "self.params['contains']({x})", success="return", failure="next", exhausted="raise")
    if verdict_ct is None:
        verdict_ct = _any_predicate_semantics(ctx, ct, v, "self.params['contains']({x})", quantifier="any")
    res.judge(verdict_ct, ct,
              "accept at the first member the schema accepts; reject when none is",
              reason="contains rejects exactly when no member validates")
    pn = ctx.cls("PropertyNames").methods["_validate"]
    v = pn.params[1].name
    res.judge(_loop_try_semantics(ctx, pn, v, "self.params['propertyNames']({x})", success="next", failure="raise", exhausted="accept"), pn,
              "every key must validate against propertyNames", reason="propertyNames rejects exactly when some key is rejected")


def _any_predicate_semantics(ctx, func, value, call_tmpl, quantifier):
    """`if not any(P(x) for x in value): raise ValidationError` (or the all() dual) where the private predicate P runs the
    protected call and answers True when it returned, False when it was rejected."""
    body = [st for st in V(ctx, func).body if not (isinstance(st, ast.Expr) and isinstance(st.value, ast.Constant))]
    if len(body) != 1 or not isinstance(body[0], ast.If) or body[0].orelse:
        return None
    t, pol = strip_not(body[0].test)
    if pol or not (isinstance(t, ast.Call) and dotted(t.func) == quantifier and len(t.args) == 1
                   and isinstance(t.args[0], (ast.GeneratorExp, ast.ListComp)) and len(t.args[0].generators) == 1):
        return None
    gen = t.args[0]
    g = gen.generators[0]
    if g.ifs or norm(g.iter) not in (value, f"{value}.keys()", f"list({value})", f"iter({value})") or not isinstance(g.target, ast.Name):
        return None
    if _paths_exits(body[0].body) != {"raise"}:
        return None
    call = gen.elt
    if not (isinstance(call, ast.Call) and len(call.args) == 1 and norm(call.args[0]) == g.target.id and not call.keywords):
        return None
    pred = None
    if isinstance(call.func, ast.Attribute) and norm(call.func.value) == "self" and func.cls is not None:
        hit = func.cls.lookup(call.func.attr)
        pred = hit[1] if hit and hit[0] == "method" else None
        params = pred.params[1:] if pred is not None else []
    elif isinstance(call.func, ast.Name):
        r = ctx.prog.resolve_in(func, call.func.id)
        pred = r[1] if r and r[0] == "func" else None
        params = pred.params if pred is not None else []
    if pred is None or len(params) != 1:
        return None

    def const(val):
        return lambda e, *_: isinstance(e, ast.Constant) and e.value is val
    return _try_semantics(ctx, pred, [call_tmpl.format(x=params[0].name)], on_success={"return"}, on_failure={"return"},
                          success_ret=const(True), failure_ret=const(False))


REJECTION = ["TypeError", "ValidationError"]


def _path_events(p, call_pats):
    """('CALL' if the guarded call is on the path, 'HANDLER:<types>' markers)"""
    evs = []
    for st in p.stmts:
        if isinstance(st, tuple) and st[0] == "handler":
            evs.append("HANDLER:" + ",".join(exc_handler_names(st[1])))
        elif isinstance(st, tuple) and st[0] == "try":
            evs.append("TRY")
        elif isinstance(st, ast.AST):
            if any(has(cp, st) for cp in call_pats):
                evs.append("CALL")
    return evs


def _try_semantics(ctx, func, call_pats, on_success, on_failure, body=None, success_ret=None, failure_ret=None):
    """The call runs inside a try whose only handler catches exactly
    (TypeError, ValidationError); when it returns normally the path ends in
    one of `on_success`; when it is rejected the handler path ends in one of
    `on_failure`.  True / False / None (unrecognised)."""
    vb = body if body is not None else V(ctx, func).body
    paths = enumerate_paths(vb)
    saw_call = saw_handler = False
    for p in paths:
        evs = _path_events(p, call_pats)
        handlers = [e for e in evs if e.startswith("HANDLER:")]
        if handlers:
            saw_handler = True
            if handlers != ["HANDLER:" + ",".join(sorted(REJECTION))]:
                return False
            if _exit_label(p) not in on_failure:
                return False
            if failure_ret is not None and p.exit == "return" and not failure_ret(resolve_on_path(p.exit_node.value, p), [st[1] for st in p.stmts if isinstance(st, tuple) and st[0] == "handler"][0]):
                return False
        elif "CALL" in evs:
            saw_call = True
            if "TRY" not in evs[: evs.index("CALL") + 1]:
                return False  # the call is not protected
            if _exit_label(p) not in on_success:
                return False
            if success_ret is not None and p.exit == "return" and not success_ret(resolve_on_path(p.exit_node.value, p)):
                return False
    if not saw_call or not saw_handler:
        return None
    return True


def _exit_label(p):
    if p.exit == "raise":
        return "raise" if (p.exit_node is None or p.exit_node.exc is None or "ValidationError" in norm(p.exit_node)) else "raise-other"
    return p.exit


def _loop_try_semantics(ctx, func, value, call_tmpl, success, failure, exhausted):
    """One loop over the value; per member a protected call.
    success / failure in {"return", "next", "raise"}: what happens to the
    function when the member is accepted / rejected; exhausted: "raise" or
    "accept" when the loop runs out."""
    vb = V(ctx, func).body
    loops = [n for n in vb if isinstance(n, ast.For)]
    if len(loops) != 1:
        return None
    lp = loops[0]
    if norm(lp.iter) not in (value, f"{value}.keys()", f"list({value})", f"iter({value})"):
        return None
    x = norm(lp.target)
    call_pat = call_tmpl.format(x=x)
    want_s = {"return": {"return"}, "next": {"fall", "continue"}, "raise": {"raise"}}[success]
    want_f = {"return": {"return"}, "next": {"fall", "continue"}, "raise": {"raise"}}[failure]
    r = _try_semantics(ctx, func, [call_pat], want_s, want_f, body=lp.body)
    if r is not True:
        return r
    if any(isinstance(n, ast.Break) for n in ast.walk(lp)):
        return None
    after = vb[vb.index(lp) + 1:] + []
    tail = list(lp.orelse) + after
    ends = _paths_exits(tail)
    if exhausted == "raise":
        return ends == {"raise"}
    return ends <= {"fall", "return"}


def _paths_exits(stmts):
    return {_exit_label(p) for p in enumerate_paths(stmts)} if stmts else {"fall"}


def _try_reject(func, call_pat, handler, on_fail):
    tries = [n for n in walk_own(func.body) if isinstance(n, ast.Try)]
    if len(tries) != 1:
        return False
    t = tries[0]
    if not has(call_pat, t.body):
        return False
    if len(t.handlers) != 1 or exc_handler_names(t.handlers[0]) != sorted(handler):
        return False
    if on_fail == "raise":
        return any(isinstance(x, ast.Raise) and x.exc is not None and "ValidationError" in norm(x.exc) for x in t.handlers[0].body)
    return True


# ---------------------------------------------------------------------- G2
@rule("G2", "validators run only on their instance types; bool is not a number; only ValidationError is converted")
def g2(ctx, res):
    call = ctx.func("Validator.__call__")
    v, prop = call.params[1].name, call.params[2].name
    guard_ok = False
    val_call = None
    vcall = V(ctx, call)  # local aliases of the guard inlined (`applicable = ...; if not applicable: return`)
    for n in walk_own(vcall.body):
        if isinstance(n, ast.Call) and norm(n.func) == "self._validate":
            val_call = n
    if val_call is None:
        raise AnalysisError("Validator.__call__ no longer calls self._validate")
    P = Parents(vcall.body)
    gs = flat_guards(P, val_call)
    # reached iff not (types and not _is_instance(value, types))
    raw = guards_of(P, val_call)
    if len(raw) == 1:
        t, pol = raw[0]

        def atom_eval_factory(types_truthy, isinst):
            def ae(e):
                if norm(e) == "self.types":
                    return types_truthy
                if norm(e) == f"_is_instance({v}, self.types)":
                    return isinst
                return None
            return ae
        good = True
        for tt in (True, False):
            for ii in (True, False):
                val = eval3(t, atom_eval_factory(tt, ii))
                if val is None:
                    good = False
                    break
                reached = (val == pol)
                want = (not tt) or ii
                if reached != want:
                    good = False
        guard_ok = good
    if not guard_ok and len(raw) == 1 and any(eval3(raw[0][0], atom_eval_factory(tt, ii)) is None for tt in (True, False) for ii in (True, False)):
        guard_ok = None  # the test mentions something other than the two atoms: not interpreted
    res.judge(guard_ok, call, f"_validate reached iff not self.types or _is_instance({v}, self.types)",
              detail={"guards": [(norm(t), p) for t, p in raw]},
              reason="a keyword is ignored for values outside its instance types, and applied to all others")
    hs = handlers_of(P, val_call)
    names = [exc_handler_names(h) for h, _ in hs]
    res.check(names == [["ValidationError"]], call, "except ValidationError:", detail={"handlers": names},
              reason="only the bare ValidationError of _validate is converted into the reported error")
    if hs:
        h = hs[0][0]
        res.judge(True if (has(f"raise ValidationError.from_validator({prop}, {v}, self.error_message())", h.body)) else None, call,
                  "raise ValidationError.from_validator(property_, value, self.error_message())",
                  reason="the reported error is the library's validation error")
    isi = ctx.func("_is_instance")
    v, ta = isi.params[0].name, isi.params[1].name

    def rec(e):
        ia = isinstance_atom(e)
        if ia and ia[0] == v and ia[1] == ["bool"]:
            return ("ISBOOL", ia[2])
        c = cmp_atom(e)
        if c and c[0] == "bool" and c[1] in ("in", "not in") and c[2] == ta:
            return ("BOOLOK", c[1] == "in")
        return None

    def classify(p):
        if p.exit == "return" and p.exit_node.value is not None:
            e = p.exit_node.value
            if isinstance(e, ast.Constant):
                return repr(e.value)
            r = rec(e)
            if r:
                return f"{r[0]}={r[1]}"
            return norm(e)
        return p.exit
    table, opaque = decision_table(isi.body, ["ISBOOL", "BOOLOK"], rec, classify)
    good = not opaque
    for (isbool, boolok), labels in table.items():
        if isbool:
            ok1 = labels == {repr(boolok)} or labels == {"BOOLOK=True"}
        else:
            ok1 = labels == {f"isinstance({v}, {ta})"}
        good = good and ok1
    res.check(good, isi, "bool value: accepted iff bool in type_args; otherwise isinstance(value, type_args)",
              detail={"opaque": sorted(opaque), "table": {str(k): sorted(v) for k, v in table.items()}},
              reason="true/false are not numbers: a bool only satisfies a type list that names bool")
    io = ctx.cls("InstanceOf").methods["_validate"]
    v = io.params[1].name
    vio = V(ctx, io)
    bare = [n for n in walk_own(vio.body) if isinstance(n, ast.Call) and dotted(n.func) == "isinstance" and norm(n.args[0]) == v]
    raising = [p for p in enumerate_paths(vio.body) if _raises_validation(p)]
    verdict = None
    if bare:
        verdict = False
    elif raising:
        def flat(p):
            return [fg for t, pol in p.conds if not isinstance(t, str) for fg in flatten_guard(t, pol)]
        verdict = all(any(norm(strip_not(t, pol)[0]) == f"_is_instance({v}, self.params['types'])"
                          and strip_not(t, pol)[1] is False for t, pol in flat(p)) for p in raising)
        if not verdict and not any("_is_instance" in norm(t) for p in raising for t, pol in p.conds if not isinstance(t, str)):
            verdict = None if not any("isinstance" in norm(t) for p in raising for t, pol in p.conds if not isinstance(t, str)) else False
    res.judge(verdict, io, "if not _is_instance(value, self.params['types']): raise ValidationError",
              reason="the type validator uses the bool-aware instance test")


# ---------------------------------------------------------------------- G15
@rule("G15", "member resolution does not depend on the insertion order of patternProperties (equality ignores it)")
def g15(ctx, res):
    """Element equality compares `patternProperties` as a dict, i.e. regardless of the order in which the patterns were
    written.  Equal elements accept the same values only if a key is validated against EVERY pattern it matches; a
    first-match look-up makes the verdict depend on the order equality ignores."""
    gi = ctx.func("Properties.__getitem__")
    key = gi.params[1].name
    vb = V(ctx, gi)
    PAT = [f"list(self.pattern.getall({key}))", f"[MV_e for MV_e in self.pattern.getall({key})]", f"self.pattern.getall({key})"]
    all_matches = any(has(pt, vb.body) for pt in PAT)
    first_only = []
    for n in ast.walk(ast.Module(body=list(vb.body), type_ignores=[])):
        if isinstance(n, ast.Subscript) and norm(n.value) == "self.pattern" and isinstance(n.ctx, ast.Load):
            first_only.append(n)
        if isinstance(n, ast.Call) and isinstance(n.func, ast.Attribute) and n.func.attr in ("get", "__getitem__") \
                and norm(n.func.value) == "self.pattern":
            first_only.append(n)
        if isinstance(n, ast.Call) and dotted(n.func) == "next" and n.args and "self.pattern" in norm(n.args[0]):
            first_only.append(n)
    if first_only:
        res.violation(gi, norm(first_only[0])[:80],
                      reason="PatternDict.__getitem__ answers with the first matching pattern in insertion order: two equal "
                             "elements that list the same patterns in a different order validate a name matching several "
                             "patterns against different sub-schemas")
    else:
        res.judge(True if all_matches else None, gi, "pattern_elems = list(self.pattern.getall(key))",
                  reason="a key is validated against every pattern it matches, whatever their order")
    pd = ctx.cls("PatternDict").methods.get("getall")
    if pd is None:
        raise AnalysisError("PatternDict.getall vanished")
    stops = [n for n in walk_own(pd.body) if isinstance(n, (ast.Break,)) or (isinstance(n, ast.Return) and n.value is not None)]
    res.judge(True if not stops else None, pd, "getall yields every match",
              reason="the generator neither breaks nor returns a value after the first match")


# ---------------------------------------------------------------------- G3
@rule("G3", "per-key and per-index member resolution follows the Draft-6 cases")
def g3(ctx, res):
    gi = ctx.func("Properties.__getitem__")
    key = gi.params[1].name
    vb = V(ctx, gi)
    DECL = [f"{{MV_x.source: MV_x for MV_x in self.props.values()}}.get({key}, None)",
            f"{{MV_x.source: MV_x for MV_x in self.props.values()}}.get({key})",
            f"next((MV_x for MV_x in self.props.values() if MV_x.source == {key}), None)"]
    WRONG_DECL = [f"{{MV_x.name: MV_x for MV_x in self.props.values()}}.get({key}, None)", f"self.props.get({key}, None)",
                  f"self.props.get({key})", f"{{MV_x.name: MV_x for MV_x in self.props.values()}}.get({key})"]
    PAT = [f"list(self.pattern.getall({key}))", f"[MV_e for MV_e in self.pattern.getall({key})]"]
    has_decl = any(has(pt, vb.body) for pt in DECL)
    has_wrong = any(has(pt, vb.body) for pt in WRONG_DECL)
    res.judge(True if has_decl and not has_wrong else (False if has_wrong else None), gi,
              "prop = {prop.source: prop for prop in self.props.values()}.get(key)",
              reason="a key is matched against declared properties by their JSON (source) name")
    res.judge(True if any(has(pt, vb.body) for pt in PAT) else None, gi, "pattern_elems = list(self.pattern.getall(key))",
              reason="all matching patterns are collected")
    rec = atom_rec({"DECL": DECL, "PAT": PAT})

    def is_decl(e):
        return matches_any(e, DECL)

    def is_pat(e):
        return matches_any(e, PAT)

    def is_decl_default(e):
        """<declared>.element.default, possibly through getattr(..., 'default', NotPassed())"""
        if isinstance(e, ast.Attribute) and e.attr == "default" and isinstance(e.value, ast.Attribute) and e.value.attr == "element":
            return is_decl(e.value.value)
        b = match(_parse("getattr(MV_x.element, 'default', NotPassed())"), e)
        return b is not None and is_decl(b["MV_x"])

    def classify(p):
        if p.exit != "return" or p.exit_node.value is None:
            return p.exit
        e = p.exit_node.value
        b = match(_parse(f"self.property(MV_e, {key})"), e)
        if b is not None:
            inner = b["MV_e"]
            if norm(inner) == "self.additional":
                return "additional"
            if isinstance(inner, ast.Subscript) and is_pat(inner.value) and norm(inner.slice) == "0":
                return "pattern1"
            if isinstance(inner, ast.Name) and any(
                    isinstance(s_, ast.Assign) and len(s_.targets) == 1 and isinstance(s_.targets[0], (ast.Tuple, ast.List))
                    and len(s_.targets[0].elts) == 1 and norm(s_.targets[0].elts[0]) == inner.id and is_pat(s_.value)
                    for s_ in p.stmts if isinstance(s_, ast.AST)):
                return "pattern1"   # `(only,) = patterns`
            b2 = match(_parse("AllOf(*MV_p)"), inner)
            if b2 is not None and is_pat(b2["MV_p"]):
                return "patternN"
            return "other:" + norm(e)[:60]
        if is_decl(e):
            return "declared"
        # composite built in a (mutated, hence not inlined) local
        if isinstance(e, ast.Name):
            for node, bb in find(f"{e.id} = MV_P(AllOf(MV_d.element, *MV_q, **MV_akw), **MV_kw)", vb.body):
                kws = {k.arg: k.value for k in node.value.keywords}
                akws = {k.arg: k.value for k in node.value.args[0].keywords}
                dflt = akws.get("default")
                carries_default = dflt is not None and is_decl_default(dflt)
                if is_decl(bb["MV_d"]) and is_pat(bb["MV_q"]) and not carries_default and set(akws) <= {"default"}:
                    return "composite-without-default"
                if is_decl(bb["MV_d"]) and is_pat(bb["MV_q"]) and set(kws) == {"source", "required"} and set(akws) == {"default"} \
                        and isinstance(kws["source"], ast.Attribute) and kws["source"].attr == "source" and is_decl(kws["source"].value) \
                        and isinstance(kws["required"], ast.Attribute) and kws["required"].attr == "required" and is_decl(kws["required"].value):
                    binds = find(f"{e.id}.bind(name=MV_n, parent=MV_p)", vb.body)
                    if binds and all(isinstance(x["MV_n"], ast.Attribute) and x["MV_n"].attr == "name" and is_decl(x["MV_n"].value)
                                     for _, x in binds):
                        return "composite"
            return "other-local:" + e.id
        return "other:" + norm(e)[:60]

    table, opaque = decision_table(vb.body, ["DECL", "PAT", "PAT#ONE"], rec, classify)
    good = True
    bad = {}
    for (d, q, one), labels in table.items():
        if q is False and one is True:
            continue
        if not d and not q:
            want = {"additional"}
        elif not d and q:
            want = {"pattern1"} if one else {"patternN"}
        elif d and not q:
            want = {"declared"}
        else:
            want = {"composite"}
        if labels != want:
            good = False
            bad[str((d, q, one))] = sorted(labels)
    # the declared element conjoined AFTER the patterns (appended to the list of pattern elements): the value is then
    # built by a pattern schema, not by the declared one
    appended_after = any(isinstance(x, ast.Call) and isinstance(x.func, ast.Attribute) and x.func.attr in ("append", "extend")
                         and x.args and any(isinstance(y, ast.Attribute) and y.attr == "element" for y in ast.walk(x.args[0]))
                         and any(is_pat(st_.value) for st_ in walk_own(V(ctx, gi, keep=tuple(gi.locals())).body)
                                 if isinstance(st_, (ast.Assign, ast.AnnAssign)) and st_.value is not None
                                 and norm(st_.targets[0] if isinstance(st_, ast.Assign) else st_.target) == norm(x.func.value))
                         for x in walk_own(V(ctx, gi, keep=tuple(gi.locals())).body))
    # a mismatch made only of recognised labels is a refutation; an unreadable construction is not
    recognised_bad = {k_: v_ for k_, v_ in bad.items() if not any(x.startswith("other") for x in v_)}
    if appended_after:
        recognised_bad["declared element appended after the pattern elements"] = ["pattern-first composite"]
        opaque = set()
    unreadable = any(lab.startswith("other") for labs in table.values() for lab in labs)
    res.judge(True if good else (False if recognised_bad and not opaque else (None if (unreadable or opaque) else False)), gi,
              "(declared?, pattern match?) -> additional | patterns | declared | declared+patterns",
              detail={"opaque": sorted(opaque), "mismatches": bad},
              reason="the element a key is validated by is composed from exactly the schemas Draft 6 applies to it")

    # Items.__getitem__
    ii = ctx.func("Items.__getitem__")
    idx = ii.params[1].name
    vi = V(ctx, ii)

    def rec_i(e):
        ia = isinstance_atom(e)
        if ia and ia[0] == "self.items" and ia[1] == ["list"]:
            return ("ISLIST", ia[2])
        return None

    def classify_i(p):
        if p.exit != "return":
            return p.exit
        t = norm(p.exit_node.value)
        inh = [s_[1] for s_ in p.stmts if isinstance(s_, tuple) and s_[0] == "handler"]
        if inh:
            return f"handler[{','.join(exc_handler_names(inh[0]))}]:{t}"
        return t
    table, opaque = decision_table(vi.body, ["ISLIST"], rec_i, classify_i)
    want = {(True,): {f"self.items[{idx}]", "handler[IndexError]:self.additional"}, (False,): {"self.items"}}
    res.judge(True if table == want else (None if opaque else False), ii, "not a list -> items; in range -> items[i]; beyond -> additional",
              detail={"table": {str(k): sorted(x) for k, x in table.items()}, "opaque": sorted(opaque)},
              reason="index resolution follows items / tuple items / additionalItems")

    iinit = ctx.func("Items.__init__")
    ip = iinit.params[1].name
    verdict = None
    for st in walk_own(V(ctx, iinit).body):
        if isinstance(st, ast.Assign) and any(norm(t) == "self.items" for t in st.targets):
            tbl, opq = decision_table([ast.Return(value=st.value)], ["NP"],
                                      lambda e: (("NP", np_atom(e)[1]) if np_atom(e) and np_atom(e)[0] == ip else None),
                                      lambda p: norm(p.exit_node.value))
            if not opq:
                verdict = tbl == {(True,): {"Element()"}, (False,): {ip}}
            elif any(norm(x) == ip for x in ast.walk(st.value) if isinstance(x, ast.Name)) and isinstance(st.value, (ast.BoolOp, ast.IfExp)):
                verdict = False  # decided by something other than the not-passed marker (e.g. truthiness)
    if has(f"if isinstance({ip}, NotPassed):\n    self.items = Element()\nelse:\n    self.items = {ip}", iinit):
        verdict = True
    res.judge(verdict, iinit, "self.items = Element() if items is not passed else items",
              reason="only a MISSING items keyword means accept-anything; [] and the false schema are falsy but meaningful")

    for cname in ("Items", "Properties"):
        init = ctx.func(f"{cname}.__init__")
        res.judge(_additional_normalised(ctx, init), init, "additional: True -> Element(), False -> Nothing(), element -> itself",
                  reason="boolean additional* means accept-anything / accept-nothing")
    pc = ctx.func("Properties.__contains__")
    k = pc.params[1].name
    vpc = V(ctx, pc)
    okc = has(f"return bool(self[{k}].element != Nothing())", vpc.body) or has(f"return self[{k}].element != Nothing()", vpc.body) \
        or has(f"return not self[{k}].element == Nothing()", vpc.body)
    wrongc = has(f"return self[{k}].element == Nothing()", vpc.body) or has(f"return bool(self[{k}].element == Nothing())", vpc.body)
    res.judge(True if okc else (False if wrongc else None), pc,
              "key in properties iff its resolved element is not Nothing()", reason="a key is allowed unless it resolves to the false schema")

    ap = ctx.cls("AdditionalProperties").methods["_validate"]
    v = ap.params[1].name
    props = "self.params['__properties__']"
    vap = V(ctx, ap)
    bad_keys = None
    for b in builders(vap.body):
        if norm(b.iter) in (v, f"{v}.keys()", f"list({v})") and b.kind in ("set", "list") and norm(b.elt) == norm(b.target) \
                and b.guard_texts() == [f"not {norm(b.target)} in {props}"] or (
                norm(b.iter) in (v, f"{v}.keys()") and b.guard_texts() == [f"{norm(b.target)} not in {props}"] and norm(b.elt) == norm(b.target)):
            bad_keys = b
    BAD = []
    if bad_keys is not None:
        if bad_keys.name:
            BAD.append(bad_keys.name)
        if isinstance(bad_keys.node, (ast.SetComp, ast.ListComp)):
            BAD.append(norm(bad_keys.node))
    BAD += [f"any((MV_k not in {props} for MV_k in {v}))"]
    rec_ap = atom_rec({"ADDL": [f"{props}.additional"], "BAD": BAD})

    def rec_ap2(e):
        r = rec_ap(e)
        if r:
            return r
        if match(_parse(f"all((MV_k in {props} for MV_k in {v}))"), strip_not(e)[0]) is not None:
            return ("BAD", not strip_not(e)[1])
        return None
    table, opaque = decision_table(vap.body, ["ADDL", "BAD"], rec_ap2, lambda p: "raise" if _raises_validation(p) else "accept")
    want = {(True, True): {"accept"}, (True, False): {"accept"}, (False, True): {"raise"}, (False, False): {"accept"}}
    res.judge(True if table == want else (None if opaque else False), ap,
              "return early iff additional is truthy; otherwise raise iff some key is not contained",
              detail={"table": {str(k): sorted(x) for k, x in table.items()}, "opaque": sorted(opaque)},
              reason="additionalProperties: false rejects exactly the keys no declared or pattern property covers")
    pd = ctx.func("PatternDict.getall")
    k = pd.params[1].name
    okp = None
    for b in builders(V(ctx, pd).body):
        if b.kind == "gen" and has("self.items()", b.iter) and isinstance(b.target, ast.Tuple) and len(b.target.elts) == 2:
            pt, val = norm(b.target.elts[0]), norm(b.target.elts[1])
            gt = b.guard_texts()
            if norm(b.elt) == val and gt == [f"re.search({pt}, {k})"]:
                okp = True
            elif norm(b.elt) == val and any(g.startswith("re.") or "re." in g for g in gt):
                okp = False
    res.judge(okp, pd, "yield every value whose pattern re.search-matches the key", reason="every matching pattern contributes")


def _bool_or_element_cases(body, a, target=None):
    """Abstractly run `body` for a in {True, False, <an element>} and collect,
    per case, the values finally stored to `target` (or returned when target
    is None).  Conditions on `a` are evaluated exactly (isinstance bool,
    is/== True/False, truthiness for the two booleans); any other condition is
    opaque.  -> (cases dict, opaque set)"""
    out = {}
    opaque = set()
    paths = enumerate_paths(body)
    for case in ("True", "False", "other"):
        def ae(e, case=case):
            ia = isinstance_atom(e)
            if ia and ia[0] == a and ia[1] == ["bool"]:
                return (case != "other") == ia[2]
            c = cmp_atom(e)
            if c and c[0] == a and c[2] in ("True", "False"):
                if c[1] in ("is", "=="):
                    return case == c[2]
                if c[1] in ("is not", "!="):
                    return case != c[2]
            if norm(e) == a:
                if case == "other":
                    opaque.add("truthiness of a non-boolean " + a)
                    return None
                return case == "True"
            opaque.add(norm(e))
            return None

        def value_labels(v):
            if isinstance(v, ast.IfExp):
                t = eval3(v.test, ae)
                if t is True:
                    return value_labels(v.body)
                if t is False:
                    return value_labels(v.orelse)
                return value_labels(v.body) | value_labels(v.orelse)
            if isinstance(v, ast.Subscript) and isinstance(v.value, ast.Dict) and norm(v.slice) == a:
                for k, x in zip(v.value.keys, v.value.values):
                    if k is not None and norm(k) == case:
                        return value_labels(x)
                return {"KeyError"}
            return {norm(v)}
        labels = set()
        for p in paths:
            feasible = True
            for c in p.conds:
                if isinstance(c[0], str):
                    continue
                val = eval3(c[0], ae)
                if val is not None and val != c[1]:
                    feasible = False
                    break
            if not feasible:
                continue
            if target is None:
                if p.exit == "return" and p.exit_node.value is not None:
                    labels |= value_labels(p.exit_node.value)
                else:
                    labels.add(p.exit)
            else:
                vals = [s_.value for s_ in p.stmts if isinstance(s_, (ast.Assign, ast.AnnAssign)) and s_.value is not None
                        and any(norm(t) == target for t in (s_.targets if isinstance(s_, ast.Assign) else [s_.target]))]
                labels |= value_labels(vals[-1]) if vals else {"none"}
        out[case] = labels
    return out, opaque


def _additional_normalised(ctx, init):
    """self.additional: True -> Element(), False -> Nothing(), an element ->
    itself - whatever the control structure, possibly through a helper."""
    a = "additional"
    if a not in [p.name for p in init.params]:
        return None
    vb = V(ctx, init).body
    want = {"True": {"Element()"}, "False": {"Nothing()"}, "other": {a}}
    for node, b in find("self.additional = MV_h(MV_a)", vb):
        if norm(b["MV_a"]) == a and isinstance(b["MV_h"], ast.Name):
            r = ctx.prog.resolve_in(init, b["MV_h"].id)
            if r and r[0] == "func" and r[1].params:
                h = r[1]
                hp = h.params[0].name
                cases, opq = _bool_or_element_cases(V(ctx, h).body, hp)
                wanth = {"True": {"Element()"}, "False": {"Nothing()"}, "other": {hp}}
                return True if cases == wanth else (None if opq else False)
    cases, opq = _bool_or_element_cases(vb, a, target="self.additional")
    if cases == want:
        return True
    vals = {x for labs in cases.values() for x in labs}
    if not opq or any("Element()" in x or "Nothing()" in x for x in vals):
        return False
    return None


# ---------------------------------------------------------------------- G4
@rule("G4", "anyOf / oneOf / allOf / not count outcomes as Draft 6 prescribes")
def g4(ctx, res):
    f = ctx.func("_attempt_schemas")
    elements, value, prop, mode = [p.name for p in f.params[:4]]
    outs = resn = errn = None
    for node, b in find(f"MV_o = [_attempt_schema(MV_e, {value}, {prop}) for MV_e in {elements}]", f):
        outs = name_of(b["MV_o"])
    filtered = any(b.guards or norm(b.iter) != elements for b in builders(f.body) if has("_attempt_schema(MV__, MV__, MV__)", b.elt))
    res.judge(True if outs is not None else (False if filtered else None), f,
              "outcomes = [_attempt_schema(element, value, property_) for element in elements]",
              reason="every branch is attempted (no filter, no slice)")
    if outs is None:
        return
    for node, b in find(f"MV_r = [MV_x.result for MV_x in {outs} if not MV_x.error]", f):
        resn = name_of(b["MV_r"])
    for node, b in find(f"MV_r = [MV_x.error for MV_x in {outs} if MV_x.error]", f):
        errn = name_of(b["MV_r"])
    # two-step forms: the successful / failed outcomes are collected first
    sname = None
    for node, b in find(f"MV_s = [MV_x for MV_x in {outs} if not MV_x.error]", f):
        sname = name_of(b["MV_s"])
        for node2, b2 in find(f"MV_r = [MV_y.result for MV_y in {name_of(b['MV_s'])}]", f):
            resn = resn or name_of(b2["MV_r"])
    if resn is None and sname is not None:
        resn = sname  # the successful outcomes themselves are counted; the result is read off the first of them
    for node, b in find(f"MV_s = [MV_x for MV_x in {outs} if MV_x.error]", f):
        for node2, b2 in find(f"MV_r = [MV_y.error for MV_y in {name_of(b['MV_s'])}]", f):
            errn = errn or name_of(b2["MV_r"])
    res.judge(True if (resn is not None and errn is not None) else None, f, "results = successes; errors = failures",
              reason="each outcome is counted as exactly one of success / failure")
    if resn is None or errn is None:
        return

    def rec(e):
        t, pol = strip_not(e)
        if norm(t) == resn:
            return ("ANY", pol)
        if norm(t) == errn:
            return ("ERR", pol)
        c = cmp_atom(e)
        if c:
            if c[0] == mode and c[1] in ("==", "!=") and c[2] in ("'anyOf'", "'oneOf'", "'allOf'"):
                return ("M_" + c[2].strip("'"), c[1] == "==")
            if c[0] == f"len({resn})":
                if (c[1], c[2]) in ((">", "1"), (">=", "2"), ("!=", "1")):
                    return ("MANY", True)
                if (c[1], c[2]) in (("==", "1"), ("<=", "1"), ("<", "2")):
                    return ("MANY", False)
                if (c[1], c[2]) in (("==", "0"),):
                    return ("ANY", False)
        return None

    def classify(p):
        if p.exit == "raise":
            return "raise:" + ("ValidationError" if "ValidationError" in norm(p.exit_node) else norm(p.exit_node.exc)[:20])
        if p.exit == "return":
            t_ = _R(p.exit_node.value)
            if (sname is not None and t_ == f"{sname}[0].result") or (resn != sname and t_ == f"{resn}[0]"):
                t_ = "FIRST-RESULT"
            return "return:" + t_
        return p.exit

    from .norm import text_resolver as _text_resolver
    _R = _text_resolver(f.body, keep=tuple(x for x in (resn, errn, sname, outs) if x))
    atoms = ["ANY", "MANY", "ERR", "M_anyOf", "M_oneOf", "M_allOf"]
    table, opaque = decision_table(f.body, atoms, rec, classify)
    good = True
    first_result = "return:FIRST-RESULT"
    bad = {}
    for values, labels in table.items():
        a = dict(zip(atoms, values))
        if sum([a["M_anyOf"], a["M_oneOf"], a["M_allOf"]]) != 1:
            continue
        if a["MANY"] and not a["ANY"]:
            continue
        if not a["ANY"]:
            want = {"raise:ValidationError"}
        elif a["M_anyOf"]:
            want = {first_result}
        elif a["M_oneOf"]:
            want = {"raise:ValidationError"} if a["MANY"] else {first_result}
        else:
            want = {"raise:ValidationError"} if a["ERR"] else {first_result}
        if labels != want:
            good = False
            bad[str(a)] = sorted(labels)
    # a return that delegates to something this rule cannot read (a resolver looked up in a table) is not a refutation
    def readable(lab):
        return lab.startswith("raise:") or lab == first_result or lab in ("fall",) or (lab.startswith("return:") and "(" not in lab)
    unreadable = any(not readable(x) for v_ in bad.values() for x in v_)
    res.judge(True if good else (None if ((opaque and not bad) or unreadable) else False), f, "anyOf: >=1 success; oneOf: exactly 1; allOf: no failure; result = first success",
              detail={"opaque": sorted(opaque), "mismatches": bad},
              reason="the composition verdict is the Draft-6 count of successful branches")
    a1 = ctx.func("_attempt_schema")
    e, v, pr = [p.name for p in a1.params[:3]]
    oc = ctx.cls("Outcome")
    fields = [st.target.id for st in oc.node.body if isinstance(st, ast.AnnAssign) and isinstance(st.target, ast.Name)]

    def outcome(x):
        """{field: text} of an Outcome(...) call, positional and keyword arguments alike; None if not such a call."""
        if not (isinstance(x, ast.Call) and dotted(x.func) == "Outcome") or len(fields) != 3:
            return None
        got = {f_: "None" for f_ in fields}
        for f_, a_ in zip(fields, x.args):
            got[f_] = norm(a_)
        for k_ in x.keywords:
            if k_.arg in got:
                got[k_.arg] = norm(k_.value)
        return got
    verdict = _try_semantics(
        ctx, a1, [f"{e}({v}, {pr})"], {"return"}, {"return"},
        success_ret=lambda x: outcome(x) == dict(zip(fields, [e, f"{e}({v}, {pr})", "None"])),
        failure_ret=lambda x, h: h.name is not None and outcome(x) == dict(zip(fields, [e, "None", h.name])))
    res.judge(verdict, a1, "success -> Outcome(result), (TypeError, ValidationError) -> Outcome(error)",
              reason="exactly the library's rejection exceptions count as a failed branch")
    nc = ctx.cls("Not").methods["construct"]
    v, pr = nc.params[1].name, nc.params[2].name
    verdict = _try_semantics(ctx, nc, [f"self.element({v}, {pr})"], {"raise"}, {"return"},
                             failure_ret=lambda x, h: x is not None and norm(x) == v)
    res.judge(verdict, nc, "not: inner rejection -> accept the value; inner acceptance -> ValidationError",
              reason="`not` rejects exactly when the inner schema accepts")
    cc = ctx.cls("CompositionElement").methods["construct"]
    v, pr = cc.params[1].name, cc.params[2].name
    vcc = V(ctx, cc)  # `mode = getattr(self, "mode", None)` read once into a local is the same attribute
    res.judge(True if (has(f"return _attempt_schemas(self.elements, {v}, {pr}, mode=self.mode)", cc) or
                       has(f"return _attempt_schemas(self.elements, {v}, {pr}, mode=self.mode)", vcc.body) or
                       has(f"return _attempt_schemas(self.elements, {v}, {pr}, mode=getattr(self, 'mode', None))", vcc.body)) else None, cc,
              "return _attempt_schemas(self.elements, value, property_, mode=self.mode)",
              reason="every composed element takes part, under the class's own mode")


def _g1_multipleof_exact(ctx, res):
    """multipleOf: integers are decided with exact arithmetic - true division only where an operand is a float."""
    f = ctx.cls("MultipleOf").methods.get("_validate")
    if f is None:
        raise AnalysisError("MultipleOf._validate vanished")
    scopes = [f]
    for site in ctx.inf.sites(f)[0]:
        c_ = getattr(site, "callee", None)
        if site.kind == "call" and c_ is not None and c_.module is f.module and c_.name.startswith("_") and c_ not in scopes:
            scopes.append(c_)
    n_div = 0
    verdict = None
    for g in scopes:
        P = Parents(g)
        for x in walk_own(g.body):
            if isinstance(x, ast.BinOp) and isinstance(x.op, ast.Div):
                n_div += 1
                gs = flat_guards(P, x)
                float_guard = any((isinstance_atom(t, pol) or (None, [], None))[1] == ["float"] and (isinstance_atom(t, pol) or (0, 0, False))[2]
                                  for t, pol in gs)
                in_fraction = any(isinstance(par, ast.Call) and dotted(par.func) in ("Fraction", "Decimal")
                                  for par, _, _ in P.chain(x) if par is not None)
                ok_ = float_guard or in_fraction
                verdict = ok_ if verdict is None else (verdict and ok_)
    has_exact = any(isinstance(x, ast.BinOp) and isinstance(x.op, ast.Mod) for g in scopes for x in walk_own(g.body))
    if n_div == 0:
        verdict = True if has_exact else None
    res.judge(verdict if (verdict is None or has_exact) else (verdict and True), f,
              "quotient = value / multiple_of only under isinstance(multiple_of, float); integers use value % multiple_of",
              detail={"true_divisions": n_div, "exact_remainder_present": has_exact},
              reason="int / int goes through a float and loses integrality beyond 2**53: {'multipleOf': 2} would accept 2**53 + 1")
    if not has_exact and n_div:
        res.violation(f, "value % multiple_of", reason="no exact remainder is computed any more: every decision goes through a float quotient")


# ---------------------------------------------------------------------- G5
def _good_validator_loop(lp, iter_text, arg, prop):
    """for t in <iter_text>: t(arg, prop) - nothing else that could skip a validator."""
    if not isinstance(lp, ast.For) or norm(lp.iter) != iter_text or lp.orelse:
        return False
    if any(isinstance(x, (ast.Break, ast.Continue, ast.Return, ast.If, ast.Try, ast.IfExp)) for x in ast.walk(lp)):
        return False
    return has(f"{norm(lp.target)}({arg}, {prop})", lp.body)


def _vc_label(p, iter_text, construct_pat, prop, arg=None):
    """Label of a path that returns a constructed value: 'build(X)' when the
    path runs the complete validator loop on X before, 'unvalidated(X)' when no
    loop over the validators is on the path, 'partial(X)' when the loop on the
    path can skip validators.  None when the exit is not a construction."""
    if construct_pat is not None:
        e = ret_expr(p)
        b = match(_parse(construct_pat), e) if e is not None else None
        if b is None:
            return None
        arg = norm(b["MV_x"])
    seen = None
    for s_ in p.stmts:
        if isinstance(s_, tuple) and s_[0] in ("loop-enter", "loop-skip") and norm(s_[1].iter) == iter_text:
            good = _good_validator_loop(s_[1], iter_text, arg, prop)
            seen = "build" if good and seen in (None, "build") else "partial"
    if seen is None:
        return f"unvalidated({arg})"
    return f"{seen}({arg})"


@rule("G5", "every passed value is checked by ALL validators before it is constructed, members recursively")
def g5(ctx, res):
    call = ctx.func("Element.__call__")
    v, prop = call.params[1].name, call.params[2].name
    vcall = V(ctx, call)
    labels = {}
    for p in enumerate_paths(vcall.body):
        if p.exit != "return":
            continue
        e = ret_expr(p)
        t = norm(e) if e is not None else "None"
        lab = _vc_label(p, "self.validators", "self.construct(MV_x, %s)" % prop, prop)
        if lab is not None:
            labels.setdefault(lab, set()).add(t)
        elif t in ("self.default",):
            labels.setdefault("raw default", set()).add(t)
        elif t == v:
            np_ok = any((np_atom(tt, pp) or (None, None)) == (v, True) for c in p.conds if isinstance(c, tuple) and len(c) == 2
                        and isinstance(c[0], ast.AST) for tt, pp in flatten_guard(c[0], c[1]))
            labels.setdefault("marker" if np_ok else "unvalidated(%s)" % v, set()).add(t)
        else:
            labels.setdefault("other", set()).add(t)
    builds = {k for k in labels if k.startswith("build(")}
    unval = {k for k in labels if k.startswith("unvalidated(") or k.startswith("partial(")}
    verdict = True if (builds and not unval and "other" not in labels) else (False if unval else None)
    res.judge(verdict, call, "for validator in self.validators: validator(value, property_); return self.construct(value, property_)",
              detail={"exits": {k: sorted(x) for k, x in labels.items()}},
              reason="all validators run (no break / filter / early return) before construction; every exit is "
                     "build(value) | build(default) | raw default | the not-passed marker")
    cons = ctx.cls("Element").methods["construct"]
    v, prop = cons.params[1].name, cons.params[2].name
    from .paths import decision_table_eval

    def ev_k(e, A):
        ia = isinstance_atom(e)
        if ia and ia[0] == v and ia[2] and set(ia[1]) <= {"list", "dict"}:
            return ("list" in ia[1] and A["LIST"]) or ("dict" in ia[1] and A["DICT"])
        return None

    def lab_k(p):
        e = ret_expr(p)
        if e is None:
            return p.exit
        e = inline_call(e, cons, ctx.prog)
        return norm(e)
    tablek, opq = decision_table_eval(V(ctx, cons).body, ["LIST", "DICT"], ev_k, lab_k)
    wantk = {(True, False): {f"self.__items__({v}, {prop})"}, (False, True): {f"_AnonymousObject(**self.__properties__({v}))"},
             (False, False): {v}}
    got = {k: x for k, x in tablek.items() if k != (True, True)}
    passthrough = any(v in labs and k != (False, False) for k, labs in got.items())
    res.judge(True if got == wantk else (False if (passthrough or not opq) else None), cons,
              "list -> __items__(value, property_); dict -> __properties__(value); else value",
              detail={"found": {str(k): sorted(x) for k, x in got.items()}, "opaque": sorted(opq)},
              reason="members of arrays and objects are validated by recursion through the resolution helpers")
    new = ctx.func("Object.__new__")
    cls, v, prop = [p.name for p in new.params[:3]]
    nbody_ = V(ctx, new).body
    labels = {}
    for p in enumerate_paths(nbody_):
        if p.exit != "return" or ret_expr(p) is None:
            continue
        if norm(ret_expr(p)) != f"object.__new__({cls})":
            continue
        lab = _vc_label(p, f"{cls}.validators", None, prop, arg=v)
        labels.setdefault(lab, set()).add(norm(ret_expr(p)))
    verdict = True if set(labels) == {f"build({v})"} else (False if any(k != f"build({v})" for k in labels) else None)
    res.judge(verdict, new, "for validator in cls.validators: validator(value, property_); return object.__new__(cls)",
              detail={"exits": {str(k): sorted(x) for k, x in labels.items()}},
              reason="all object validators run before the instance is created")
    init = ctx.func("Object.__init__")
    vinit = V(ctx, init).body
    res.judge(True if (has("type(self).__properties__(MV_v).items()", vinit) or has("self.__class__.__properties__(MV_v).items()", vinit)) else None, init,
              "for attr_name, attr_value in type(self).__properties__(value).items()",
              reason="the instance is populated from the per-key resolved and validated members")
    pcall = ctx.func("Properties.__call__")
    res.judge(True if has("self[MV_k](MV_v)", V(ctx, pcall).body) else None, pcall, "self[key](sub_value)",
              reason="each member is validated by its resolved property")
    icall = ctx.func("Items.__call__")
    res.judge(True if has("self[MV_i](MV_v, MV__)", V(ctx, icall).body) else None, icall, "self[index](sub_value, ...)",
              reason="each item is validated by its resolved element")
    pr = ctx.func("_Property.__call__")
    res.judge(True if (has(f"return self.element({pr.params[1].name}, self)", pr)) else None, pr, "return self.element(value, self)",
              reason="a property validates with its element")


# ---------------------------------------------------------------------- G6
def _default_table(func, value_name, default_text, build_label, res, what, assume_false=()):
    """Decision table over A = NP(value), B = NP(default).  Conditions whose
    text is in `assume_false` are taken as false (a case treated elsewhere)."""
    def rec(e):
        t0, p0 = strip_not(e)
        if norm(t0) in assume_false:
            return ("Z", p0)
        a = np_atom(e)
        if a is None:
            return None
        if a[0] == value_name:
            return ("A", a[1])
        if a[0] == default_text:
            return ("B", a[1])
        return None

    def classify(p):
        if p.exit == "raise":
            return "raise"
        if p.exit == "fall":
            return "fall"
        e = ret_expr(p)
        t = norm(e) if e is not None else "None"
        in_handler = any(isinstance(s, tuple) and s[0] == "handler" for s in p.stmts)
        return build_label(t, in_handler)

    table, opaque = decision_table(func.body, ["A", "B", "Z"], rec, classify)
    table = {k[:2]: v_ for k, v_ in table.items() if k[2] is False}
    return table, opaque


@rule("G6", "defaults fill omissions only, never raise, and never replace a supplied value")
def g6(ctx, res):
    call = ctx.func("Element.__call__")
    v = call.params[1].name

    prop_name = call.params[2].name

    def label_call(t, in_handler):
        if t == f"self.construct(self.default, {prop_name})":
            return "build(default)"
        if t == "self.default":
            return "raw default (handler)" if in_handler else "raw default"
        if t == f"self.construct({v}, {prop_name})":
            return "build(value)"
        if t == v:
            return "value as is"
        return "other:" + t
    table, opaque = _default_table(V(ctx, call), v, "self.default", label_call, res, "Element.__call__")
    want = {
        (True, False): {"build(default)", "raw default (handler)"},
        (True, True): {"value as is"},
        (False, True): {"build(value)"},
        (False, False): {"build(value)"},
    }
    truthy_misuse = bool(set(opaque) & {v, "self.default"})
    res.judge(True if table == want else (None if (opaque and not truthy_misuse) else False), call,
              "NP(value) & default -> try build(default) else raw default; NP(value) & no default -> marker; value -> build(value)",
              detail={"opaque": sorted(opaque), "table": {str(k): sorted(x) for k, x in table.items()}},
              reason="the default decision of Element.__call__")
    tries = [n for n in walk_own(call.body) if isinstance(n, ast.Try)]
    res.check(len(tries) == 1 and len(tries[0].handlers) == 1 and exc_handler_names(tries[0].handlers[0]) == ["TypeError", "ValidationError"]
              and not any(isinstance(x, ast.Raise) for x in ast.walk(tries[0].handlers[0])), call,
              "except (TypeError, ValidationError): return self.default",
              reason="an invalid default is returned as is, never an error")
    new = ctx.func("Object.__new__")
    cls, v, prop = [p.name for p in new.params[:3]]

    def label_new(t, in_handler):
        if t in (f"{cls}({cls}.default, {prop})", f"{cls}({cls}.default)"):
            return "build(default)"
        if t == f"{cls}.default":
            return "raw default (handler)" if in_handler else "raw default"
        if t == f"object.__new__({cls})":
            return "build(value)"
        if t == v:
            return "value as is"
        return "other:" + t

    # strip the isinstance(value, cls) pass-through (sibling difference, checked by P5)
    table2, opaque2 = _default_table(V(ctx, new), v, f"{cls}.default", label_new, res, "Object.__new__",
                                     assume_false=(f"isinstance({v}, {cls})",))
    truthy_misuse2 = bool(set(opaque2) & {v, f"{cls}.default"})
    res.judge(True if table2 == want else (None if (opaque2 and not truthy_misuse2) else False), new, "same default decision as Element.__call__ (sibling cross-check)",
              detail={"opaque": sorted(opaque2), "table": {str(k): sorted(x) for k, x in table2.items()}},
              reason="Object.__new__ realises the same three-way decision")
    tries = [n for n in walk_own(new.body) if isinstance(n, ast.Try)]
    res.check(len(tries) == 1 and len(tries[0].handlers) == 1 and exc_handler_names(tries[0].handlers[0]) == ["TypeError", "ValidationError"]
              and not any(isinstance(x, ast.Raise) for x in ast.walk(tries[0].handlers[0])), new,
              "except (TypeError, ValidationError): return cls.default", reason="an invalid class default is returned as is")
    init = ctx.func("Object.__init__")
    v = init.params[1].name
    ok = False
    for n in walk_own(V(ctx, init, keep=(v,)).body):
        if isinstance(n, ast.If) and len(n.body) == 1 and has(f"{v} = self.default", n.body) and not n.orelse:
            good = True
            for a in (True, False):
                for b in (True, False):
                    def ae(e, a=a, b=b):
                        at = np_atom(e)
                        if at is None:
                            return None
                        if at[0] == v:
                            return a if at[1] else (not a)
                        if at[0] == "self.default":
                            return b if at[1] else (not b)
                        return None
                    val = eval3(n.test, ae)
                    if val is None or val != (a and not b):
                        good = False
            ok = good
    res.check(ok, init, "if NP(value) and not NP(self.default): value = self.default",
              reason="the instance is built from the default exactly when no value was supplied and a default exists")


# ---------------------------------------------------------------------- G7
@rule("G7", "required is waived exactly for defaulted properties, and Maybe[] is dropped exactly for required-or-defaulted")
def g7(ctx, res):
    rq = ctx.cls("_PropertyDict").props["required"]["get"]
    vb = V(ctx, rq).body
    verdict = None
    found = []
    for b in builders(vb):
        if not (has("self.items()", b.iter) and isinstance(b.target, ast.Tuple) and len(b.target.elts) == 2 and b.kind in ("list", "gen")):
            continue
        name, prop = norm(b.target.elts[0]), norm(b.target.elts[1])
        conds = []
        for t, pol in b.guards:
            conds += flatten_guard(t, pol)
        has_req = any(norm(strip_not(t, pol)[0]) == f"{prop}.required" and strip_not(t, pol)[1] for t, pol in conds)
        has_np = any((np_atom(t, pol) or (None, None)) == (f"{prop}.element.default", True) for t, pol in conds)
        elt_ok = norm(b.elt) in (f"{prop}.source or {name}",)
        found.append({"guards": b.guard_texts(), "elt": norm(b.elt)})
        if len(conds) == 2 and has_req and has_np and elt_ok:
            verdict = True
        elif verdict is None:
            verdict = False
    res.judge(verdict, rq, "[prop.source or name for name, prop in self.items() if prop.required and NP(prop.element.default)]",
              detail={"found": found},
              reason="a property is demanded iff it is required and declares no default; by its JSON name")
    fe = ctx.cls("Required").methods.get("from_element")
    if fe is None:
        raise AnalysisError("Required.from_element vanished")
    vfe = V(ctx, fe, keep=("required",)).body
    waived = None
    reads_explicit = has("getattr(MV_e, 'required', MV__)", vfe)
    # (1) the JSON names of the defaulted properties, (2) the explicit list filtered by them
    bs = builders(V(ctx, fe, keep=("required", "defaulted")).body) + builders(vfe)
    defaulted_exprs = set()
    for b in bs:
        if isinstance(b.target, ast.Tuple) and len(b.target.elts) == 2 and norm(b.iter).endswith(".items()"):
            nm, pr = norm(b.target.elts[0]), norm(b.target.elts[1])
            conds = [c for t, pol in b.guards for c in flatten_guard(t, pol)]
            if len(conds) == 1 and (np_atom(*conds[0]) or (None, None)) == (f"{pr}.element.default", False) \
                    and norm(b.elt) == f"{pr}.source or {nm}":
                if b.name:
                    defaulted_exprs.add(b.name)
                if isinstance(b.node, (ast.ListComp, ast.SetComp, ast.GeneratorExp)):
                    defaulted_exprs.add(norm(b.node))
    filtered = False
    for b in bs:
        if isinstance(b.target, ast.Name) and norm(b.elt) == b.target.id and ("required" in norm(b.iter)):
            gt = b.guard_texts()
            if len(gt) == 1 and any(gt[0] in (f"not {b.target.id} in {d}", f"{b.target.id} not in {d}") for d in defaulted_exprs):
                filtered = True
    if defaulted_exprs and filtered:
        waived = True
    elif reads_explicit:
        waived = False if not defaulted_exprs or not any("required" in norm(b.iter) and b.guards for b in bs) else None
    res.judge(waived, fe, "explicit required names are waived for properties that declare a default",
              reason="`required` given as a keyword list (what the parser produces for untyped schemas) demands a defaulted "
                     "property although the same schema as a class does not: Element(required=['a'], properties={'a': "
                     "Property(String(default='x'))})({}) raises")
    an = ctx.cls("_Property").props["annotation"]["get"]

    def rec(e):
        if norm(e) == "self.required":
            return ("REQ", True)
        a = np_atom(e)
        if a and a[0] == "self.element.default":
            return ("NODEFAULT", a[1])
        return None

    def classify(p):
        if p.exit != "return":
            return p.exit
        t = norm(ret_expr(p))
        if t == "self.element.annotation":
            return "bare"
        if t in ("f'Maybe[{self.element.annotation}]'", "'Maybe[' + self.element.annotation + ']'", "'Maybe[{}]'.format(self.element.annotation)"):
            return "maybe"
        return "other:" + t
    table, opaque = decision_table(V(ctx, an).body, ["REQ", "NODEFAULT"], rec, classify)
    good = True
    for (req, nodef), labels in table.items():
        want = {"bare"} if (req or not nodef) else {"maybe"}
        good = good and labels == want
    res.judge(True if good else (None if opaque else False), an, "annotation omits Maybe[...] iff required or defaulted",
              detail={"opaque": sorted(opaque), "table": {str(k): sorted(v) for k, v in table.items()}},
              reason="'always present' is annotated exactly for the properties the model always fills")


# ---------------------------------------------------------------------- G8
@rule("G8", "format dispatcher: miss => warn + accept; hit => the checker's answer; re-registration replaces")
def g8(ctx, res):
    call = ctx.func("_FormatString.__call__")
    fs, v = call.params[1].name, call.params[2].name

    def rec(e):
        c = cmp_atom(e)
        if c and c[0] == fs and c[2] == "self._callable_register" and c[1] in ("in", "not in"):
            return ("REG", c[1] == "in")
        got = (f"self._callable_register.get({fs})", f"self._callable_register.get({fs}, None)")
        if c and c[0] in got and c[2] == "None" and c[1] in ("is", "is not"):
            return ("REG", c[1] == "is not")  # a registered checker is a callable, never None
        if norm(e) in got:
            truthy.append(norm(e))  # the TRUTH VALUE of the registered object, not its presence
            return ("REG", True)
        return None

    truthy = []

    def classify(p):
        if p.exit != "return":
            return p.exit
        warned = any(isinstance(s, ast.Expr) and isinstance(s.value, ast.Call) and dotted(s.value.func) in ("warnings.warn", "warn")
                     for s in p.stmts if isinstance(s, ast.AST))
        t = norm(p.exit_node.value)
        if t == "True":
            return "accept+warn" if warned else "accept"
        if t in (f"self._callable_register[{fs}]({v})", f"self._callable_register.get({fs})({v})"):
            return "checker" + ("+warn" if warned else "")
        return "other:" + t
    table, opaque = decision_table(V(ctx, call).body, ["REG"], rec, classify)
    good8 = table == {(True,): {"checker"}, (False,): {"accept+warn"}}
    if truthy:
        res.judge(False, call, "registered checker consulted whatever its truth value",
                  detail={"tested_for_truth": truthy},
                  reason="the dispatcher tests the TRUTH VALUE of the registered object: a registered checker that is falsy "
                         "(a callable with __len__ / __bool__) is treated as unregistered - every string accepted, with a warning")
    res.judge(True if good8 else (None if opaque else False), call,
              "unregistered -> warnings.warn(...) and True; registered -> register[name](value)",
              detail={"opaque": sorted(opaque), "table": {str(k): sorted(x) for k, x in table.items()}},
              reason="an unregistered format never rejects and always warns; a registered one decides")
    reg = ctx.func("_FormatString.register._register_callable")
    outer = ctx.func("_FormatString.register")
    name = outer.params[1].name
    fn = reg.params[0].name
    stores = [n for n in walk_own(reg.body) if isinstance(n, (ast.Assign, ast.Expr))]
    ok = has(f"self._callable_register[{name}] = {fn}", reg) and len(reg.body) >= 1 and \
        all(not isinstance(x, (ast.If, ast.Try)) for x in walk_own(reg.body)) and \
        not has("self._callable_register.setdefault(MV__, MV__)", reg)
    res.check(ok, reg, "self._callable_register[format_string] = is_format (unconditional)",
              reason="registering a name again replaces the earlier checker")
    res.judge(True if (has("return _register_callable", outer)) else None, outer, "return _register_callable", reason="register(name) returns the storing decorator")
    fv = ctx.cls("Format").methods["_validate"]
    v = fv.params[1].name
    verdict_fv = True if (has(f"if not format_checker(self.params['format'], {v}):\n    raise ValidationError", fv)) else None
    detail_fv = {}
    if verdict_fv is None:
        for x in walk_own(V(ctx, fv).body):
            if isinstance(x, ast.Call) and dotted(x.func) == "format_checker" and x.args:
                a0 = norm(x.args[0])
                if a0 != "self.params['format']" and "self.params['format']" in a0:
                    verdict_fv = False
                    detail_fv = {"name_looked_up": a0}
    res.judge(verdict_fv, fv,
              "raise iff not format_checker(format, value)", detail=detail_fv,
              reason="a string is rejected exactly when the checker registered under THE DECLARED NAME answers false "
                     "(looking up a transformed name consults another checker, or none)")
    # built-ins are registered under their Draft-6 names
    regs = {}
    for f in ctx.prog.all_funcs():
        for d in f.decorators:
            if isinstance(d, ast.Call) and norm(d.func) == "format_checker.register" and d.args and isinstance(d.args[0], ast.Constant):
                regs[d.args[0].value] = f
    for nm in ("uuid", "date-time"):
        res.check(nm in regs, "statham/schema/validation/format.py::<module>", f"@format_checker.register({nm!r})",
                  reason="the built-in format is registered under its Draft-6 name")
    # each built-in answers with a bool on every path
    for nm, f in sorted(regs.items()):
        vfb = V(ctx, f).body
        pths = enumerate_paths(vfb)
        falls = [p_ for p_ in pths if p_.exit == "fall"]
        succ = [ret_expr(p_) for p_ in pths if p_.exit == "return" and not any(isinstance(s_, tuple) and s_[0] == "handler" for s_ in p_.stmts)]
        fail = [ret_expr(p_) for p_ in pths if p_.exit == "return" and any(isinstance(s_, tuple) and s_[0] == "handler" for s_ in p_.stmts)]

        def const(e, val):
            return isinstance(e, ast.Constant) and e.value is val
        all_ok = bool(succ) and bool(fail) and not falls and all(const(e, True) for e in succ) and all(const(e, False) for e in fail)
        computed = [norm(e) if e is not None else "None" for e in succ + fail if not (const(e, True) or const(e, False))]
        res.judge(True if all_ok else (False if (computed or falls or not fail) else None), f, "returns True / False on every path",
                  detail={"computed_returns": computed},
                  reason="the built-in checker delegates acceptance entirely to the library parser: True when it parsed, False when "
                         "it raised - a computed answer narrows (or widens) what the parser accepts")


# ---------------------------------------------------------------------- G9
@rule("G9", "the unsupported-keyword refusal dominates every interpretation of a schema dict")
def g9(ctx, res):
    pe = ctx.func("parse_element")
    s = pe.params[0].name
    idx = None
    tests = [f"set({s}) & UNSUPPORTED_SCHEMA_KEYWORDS", f"UNSUPPORTED_SCHEMA_KEYWORDS & set({s})",
             f"UNSUPPORTED_SCHEMA_KEYWORDS.intersection({s})", f"set({s}).intersection(UNSUPPORTED_SCHEMA_KEYWORDS)",
             f"any(MV_k in {s} for MV_k in UNSUPPORTED_SCHEMA_KEYWORDS)",
             f"not UNSUPPORTED_SCHEMA_KEYWORDS.isdisjoint({s})", f"not set({s}).isdisjoint(UNSUPPORTED_SCHEMA_KEYWORDS)"]
    from .norm import inline_procedures
    import copy as _copy
    body = view(pe, ctx.prog).body
    for i, st in enumerate(body):
        if isinstance(st, ast.If) and any(match(_parse(t), st.test) is not None for t in tests):
            raises = [x for x in st.body if isinstance(x, ast.Raise) and x.exc is not None and "FeatureNotImplementedError" in norm(x.exc)]
            if raises and always_exits(st.body):
                idx = i
                break
    g9_verdict = True if idx is not None else None
    g9_detail = {}
    if idx is None:
        # positive evidence of a weakened refusal
        for st in body:
            for x in ast.walk(st):
                # presence decided by the truth value of the keyword's value: filter(schema.get, UNSUPPORTED...) / schema.get(k)
                if isinstance(x, ast.Call) and dotted(x.func) == "filter" and len(x.args) == 2 and norm(x.args[0]) == f"{s}.get" \
                        and "UNSUPPORTED_SCHEMA_KEYWORDS" in norm(x.args[1]):
                    g9_verdict, g9_detail = False, {"presence_by_truth_value": norm(x)[:100]}
                if isinstance(x, (ast.GeneratorExp, ast.ListComp, ast.SetComp)) and any(
                        "UNSUPPORTED_SCHEMA_KEYWORDS" in norm(g_.iter) for g_ in x.generators) \
                        and any(norm(c_) == f"{s}.get({norm(x.generators[0].target)})" for g_ in x.generators for c_ in g_.ifs):
                    g9_verdict, g9_detail = False, {"presence_by_truth_value": norm(x)[:100]}
            # the refusal (or the helper holding it) runs only under a guard that is not the dispatch of non-dict schemas
            if isinstance(st, ast.If) and not (isinstance_atom(st.test) and isinstance_atom(st.test)[0] == s):
                holds = False
                for x in ast.walk(st):
                    if isinstance(x, ast.Raise) and x.exc is not None and "FeatureNotImplementedError" in norm(x.exc):
                        holds = True
                    if isinstance(x, ast.Call) and isinstance(x.func, ast.Name):
                        r_ = ctx.prog.resolve_in(pe, x.func.id)
                        if r_ and r_[0] == "func" and "UNSUPPORTED_SCHEMA_KEYWORDS" in norm(r_[1].node) \
                                and any(norm(a_) == s for a_ in x.args):
                            holds = True
                if holds and not any(match(_parse(t), st.test) is not None for t in tests) and s not in norm(st.test):
                    g9_verdict, g9_detail = False, {"refusal_only_when": norm(st.test)[:80]}
    res.judge(g9_verdict, pe, "if set(schema) & UNSUPPORTED_SCHEMA_KEYWORDS: raise FeatureNotImplementedError...", detail=g9_detail,
              reason="schemas using an unsupported keyword are refused with the not-implemented error")
    if idx is None:
        return
    def interprets(node):
        """Does the statement look inside the schema dict (subscript, method, membership, iteration, passing it on)?"""
        for x in ast.walk(node):
            if isinstance(x, ast.Subscript) and norm(x.value) == s:
                return f"subscript {norm(x)}"
            if isinstance(x, ast.Attribute) and norm(x.value) == s:
                return f"attribute {norm(x)}"
            if isinstance(x, ast.Compare) and any(isinstance(o, (ast.In, ast.NotIn)) for o in x.ops) \
                    and any(norm(c) == s for c in x.comparators):
                return f"membership {norm(x)}"
            if isinstance(x, (ast.For, ast.comprehension)) and norm(x.iter) == s:
                return "iteration over the schema"
            if isinstance(x, ast.Call) and dotted(x.func) not in ("isinstance", "bool", "type", "len", "id") \
                    and any(norm(arg) == s for arg in list(x.args) + [k.value for k in x.keywords]):
                return f"passes the schema to {norm(x.func)}"
            if isinstance(x, ast.Starred) and norm(x.value) == s or isinstance(x, ast.keyword) and x.arg is None and norm(x.value) == s:
                return "unpacks the schema"
        return None

    n_before = 0
    for st in body[:idx]:
        if isinstance(st, ast.Expr) and isinstance(st.value, ast.Constant):
            continue  # docstring
        n_before += 1
        what = interprets(st)
        reads = any(isinstance(x, ast.Name) and x.id == s for x in ast.walk(st))
        verdict = None
        why = ""
        if what is not None:
            verdict = False
            why = what
        elif not reads:
            verdict = True
            why = "statement not reading the schema"
        elif isinstance(st, ast.If) and not st.orelse and always_exits(st.body) \
                and norm(st.test) in (f"not {s}", f"{s} == {{}}", f"len({s}) == 0", f"not len({s})"):
            # an empty schema holds no keyword at all, so none that is unsupported
            verdict = True
            why = "empty-schema shortcut (no keyword present)"
        elif isinstance(st, ast.If) and not st.orelse and always_exits(st.body):
            ia = isinstance_atom(st.test)
            if ia and ia[0] == s and ia[2] and all(t in ("bool", "Element") for t in ia[1]):
                # non-dict schemas are dispatched before: the body may only use the value as a whole (truthiness / returning it)
                verdict = True
                why = "non-dict schema (boolean / already parsed element) pass-through"
                if ia[1] == ["bool"]:
                    cases, opq = _bool_or_element_cases(st.body, s)
                    if cases["True"] != {"Element()"} or cases["False"] != {"Nothing()"}:
                        verdict = False if not opq else None
                        why = f"boolean schema: true -> {sorted(cases['True'])}, false -> {sorted(cases['False'])}"
                elif ia[1] == ["Element"]:
                    rets = {norm(x.value) for x in ast.walk(st) if isinstance(x, ast.Return) and x.value is not None}
                    if rets != {s}:
                        verdict = None
        res.judge(verdict, pe, st if not isinstance(st, ast.If) else f"if {norm(st.test)}: ...",
                  detail={"why": why},
                  reason=f"statement before the refusal test is harmless ({why})" if verdict else
                  "a statement that interprets the schema (or returns an element) runs BEFORE the unsupported-keyword test")
    res.stat("statements_before_test", n_before)
    # parse_element is the only door: every other parser function taking a schema is reached only from it
    table = ctx.rule_result("T8")


# --------------------------------------------------------------------- G10
def _eval_name_filter(test, var, name, consts=None):
    """Evaluate a filter condition over a string variable for a concrete name."""
    consts = consts or {}

    def ev(e):
        if isinstance(e, ast.BoolOp):
            vals = [ev(v) for v in e.values]
            if any(v is None for v in vals):
                return None
            return all(vals) if isinstance(e.op, ast.And) else any(vals)
        if isinstance(e, ast.UnaryOp) and isinstance(e.op, ast.Not):
            v = ev(e.operand)
            return None if v is None else (not v)
        if isinstance(e, ast.Call) and isinstance(e.func, ast.Attribute) and norm(e.func.value) == var and len(e.args) == 1 \
                and isinstance(e.args[0], ast.Constant):
            if e.func.attr == "startswith":
                return name.startswith(e.args[0].value)
            if e.func.attr == "endswith":
                return name.endswith(e.args[0].value)
        if isinstance(e, ast.Compare) and len(e.ops) == 1 and norm(e.left) == var:
            r = e.comparators[0]
            if isinstance(r, ast.Name) and r.id in consts:
                r = consts[r.id]
            if isinstance(r, ast.Constant):
                if isinstance(e.ops[0], ast.Eq):
                    return name == r.value
                if isinstance(e.ops[0], ast.NotEq):
                    return name != r.value
            if isinstance(r, (ast.Tuple, ast.List, ast.Set)) and all(isinstance(x, ast.Constant) for x in r.elts):
                vals = [x.value for x in r.elts]
                if isinstance(e.ops[0], ast.In):
                    return name in vals
                if isinstance(e.ops[0], ast.NotIn):
                    return name not in vals
        return None
    return ev(test)


@rule("G10", "element equality is exact-type, symmetric, and inspects every configuration attribute")
def g10(ctx, res):
    eq = ctx.func("Element.__eq__")
    other = eq.params[1].name
    idioms = [f"if not isinstance({other}, self.__class__):\n    return False",
              f"if not isinstance({other}, type(self)):\n    return False",
              f"if type({other}) is not type(self):\n    return False",
              f"if type(self) is not type({other}):\n    return False",
              f"if type({other}) != type(self):\n    return False"]
    GUARDS = [f"isinstance({other}, self.__class__)", f"isinstance({other}, type(self))", f"type({other}) is type(self)",
              f"type(self) is type({other})", f"type({other}) == type(self)", f"type(self) == type({other})"]
    REVERSED = [f"isinstance(self, {other}.__class__)", f"isinstance(self, type({other}))"]

    def rec_guard(e):
        t_, p_ = strip_not(e)
        if any(match(_parse(g_), t_) is not None for g_ in GUARDS):
            return ("SAME", p_)
        c_ = cmp_atom(e)
        if c_ and c_[1] in ("is not", "!=") and {c_[0], c_[2]} == {f"type({other})", "type(self)"}:
            return ("SAME", False)
        return None

    def lab_guard(p_):
        e_ = ret_expr(p_)
        if e_ is None:
            return p_.exit
        if isinstance(e_, ast.Constant):
            return repr(e_.value)
        # `return <guard> and <comparison>`
        if isinstance(e_, ast.BoolOp) and isinstance(e_.op, ast.And) and rec_guard(e_.values[0]) == ("SAME", True):
            return "guard-and-compare"
        return "compare"
    tbl_g, opq_g = decision_table(V(ctx, eq).body, ["SAME"], rec_guard, lab_guard)
    guard_ok = tbl_g.get((False,)) == {"False"} and tbl_g.get((True,)) and "False" not in tbl_g.get((True,), set())
    if tbl_g.get((True,)) == {"guard-and-compare"} and tbl_g.get((False,)) == {"guard-and-compare"}:
        guard_ok = True
    reversed_form = any(has(r_, eq) for r_ in REVERSED)
    res.judge(True if (guard_ok and not reversed_form) else (False if (reversed_form or not opq_g) else None), eq,
              "if not isinstance(other, self.__class__): return False",
              reason="with CPython's subclass-first reflected comparison this class guard gives exact-type, symmetric equality "
                     "(the reversed form isinstance(self, other.__class__) would make Element() == Nothing())")
    # which attributes are compared?
    attrs = set()
    for c in element_family(ctx):
        for m in c.methods.values():
            if m.name != "__init__":
                continue
            sp = m.self_param()
            for n in walk_own(m.body):
                if isinstance(n, (ast.Assign, ast.AnnAssign)):
                    for t in (n.targets if isinstance(n, ast.Assign) else [n.target]):
                        if isinstance(t, ast.Attribute) and norm(t.value) == sp:
                            attrs.add(t.attr)
    setter_backed = set()
    for c in element_family(ctx):
        for pname, pr_ in c.props.items():
            st_ = pr_.get("set")
            if st_ is None:
                continue
            setter_backed.add(pname)
            sp_ = st_.self_param() or "self"
            for n in walk_own(st_.body):
                if isinstance(n, (ast.Assign, ast.AnnAssign)):
                    for t in (n.targets if isinstance(n, ast.Assign) else [n.target]):
                        if isinstance(t, ast.Attribute) and norm(t.value) == sp_:
                            attrs.add(t.attr)
    attrs -= setter_backed   # `self.elements = x` through a setter stores the backing attribute, which is what vars() sees
    # the attribute view compared on both sides: a lambda, a nested def or a module-level helper H with H(self) == H(other)
    candidates = [eq] + [g for g in eq.lambdas] + list(eq.nested.values())
    for node, b in find(f"MV_h(self) == MV_h({other})", eq):
        if isinstance(b["MV_h"], ast.Name):
            r = ctx.prog.resolve_in(eq, b["MV_h"].id)
            if r and r[0] == "func":
                candidates.append(r[1])
    keepers = None  # list of (test, polarity, var)
    for g in candidates:
        if keepers is not None:
            break   # the flattened body of __eq__ itself comes first and is the most informative
        for bld in builders(V(ctx, g).body):
            if bld.kind == "dict" and has("vars(MV_x).items()", bld.iter) and isinstance(bld.target, ast.Tuple):
                var = norm(bld.target.elts[0])
                conds = []
                for t, pol in bld.guards:
                    conds += flatten_guard(t, pol)
                keepers = (conds, var)
    if keepers is None and has(f"return vars(self) == vars({other})", eq):
        keepers = ([], "k")
    if keepers is None:
        raise AnalysisError("Element.__eq__: the attribute filter is no longer recognisable")
    conds, var = keepers

    consts = {}
    for n in walk_own(eq.body):
        if isinstance(n, ast.Assign) and len(n.targets) == 1 and isinstance(n.targets[0], ast.Name):
            consts[n.targets[0].id] = n.value
    for cname, cexpr in eq.module.consts.items():
        consts.setdefault(cname, cexpr)

    def kept(name):
        for t, pol in conds:
            v_ = _eval_name_filter(t, var, name, consts)
            if v_ is None:
                return None
            if v_ != pol:
                return False
        return True
    filt = None
    for a in sorted(attrs):
        keep = kept(a)
        if keep is None:
            raise AnalysisError(f"Element.__eq__: cannot evaluate the attribute filter for {a!r}")
        res.check(keep, eq, f"attribute {a} is compared", reason="equality inspects every attribute a constructor stores")
    res.floor("configuration_attributes", len(attrs), 28)
    # some returning path yields the comparison of the two (equally filtered) attribute views
    cmp_ok = None
    for p_ in enumerate_paths(V(ctx, eq).body):
        e_ = ret_expr(p_)
        if e_ is None:
            continue
        for x in ast.walk(e_):
            if isinstance(x, ast.Compare) and len(x.ops) == 1 and isinstance(x.ops[0], ast.Eq):
                l_, r_ = norm(x.left), norm(x.comparators[0])
                if "vars(self)" in l_ and f"vars({other})" in r_ and l_.replace("vars(self)", "V") == r_.replace(f"vars({other})", "V"):
                    cmp_ok = True
                if match(_parse(f"MV_f(self) == MV_f({other})"), x) is not None:
                    cmp_ok = True
                if isinstance(x.left, ast.Name) and isinstance(x.comparators[0], ast.Name):
                    # two views built by the same loop, one over vars(self), one over vars(other)
                    import re as _re

                    def canon(bld):
                        names = [y.id for y in ast.walk(bld.target) if isinstance(y, ast.Name)]
                        txt = "|".join([bld.kind, norm(bld.key) if bld.key is not None else "", norm(bld.elt)] + bld.guard_texts())
                        for i_, nm_ in enumerate(names):
                            txt = _re.sub(rf"\b{_re.escape(nm_)}\b", f"_{i_}", txt)
                        return txt
                    bl = [b_ for b_ in builders(V(ctx, eq).body) if b_.name == x.left.id and norm(b_.iter) == "vars(self).items()"]
                    br = [b_ for b_ in builders(V(ctx, eq).body) if b_.name == x.comparators[0].id and norm(b_.iter) == f"vars({other}).items()"]
                    if bl and br and canon(bl[0]) == canon(br[0]):
                        cmp_ok = True
    res.judge(cmp_ok, eq, "return pub_vars(self) == pub_vars(other)", reason="the filtered attribute dicts are compared for equality")
    # methods of the element itself that __eq__ delegates to take part in equality: no subclass / metaclass override
    eq_helpers = set()
    for x in walk_own(eq.body):
        if isinstance(x, ast.Call) and isinstance(x.func, ast.Attribute) and norm(x.func.value) in ("self", other) \
                and x.func.attr in ctx.cls("Element").methods:
            eq_helpers.add(x.func.attr)
    for c in element_family(ctx):
        for hname in sorted(eq_helpers):
            if hname in c.methods and c.name != "Element":
                res.violation(c.methods[hname], f"{c.name}.{hname}",
                              reason="an element subclass (or the metaclass) overrides a method that Element.__eq__ compares through: "
                                     "its instances are compared by a different set of attributes")
    for c in element_family(ctx):
        for dunder in ("__eq__", "__ne__", "__hash__"):
            if dunder in c.methods and c.name not in ("Element", "ObjectMeta"):
                res.violation(c.methods[dunder], f"{c.name}.{dunder}",
                              reason="an element subclass overrides equality: the exact-type, every-attribute equality that makes "
                                     "equal elements interchangeable no longer applies to it")
    res.check("__eq__" not in ctx.cls("ObjectMeta").methods, ctx.cls("ObjectMeta").qualname, "ObjectMeta inherits Element.__eq__",
              reason="object classes compare like every other element")
    peq = ctx.func("_Property.__eq__")
    other = peq.params[1].name
    init = own_init(ctx.cls("_Property"))
    found_fields = {p.name for p in init.params[1:] if has(f"self.{p.name} == {other}.{p.name}", peq)}
    for p in init.params[1:]:
        # the field-by-field style is recognised as soon as one field is compared that way: a missing one is then a gap
        res.judge(True if p.name in found_fields else (False if found_fields else None), peq, f"self.{p.name} == other.{p.name}",
                  reason="property equality covers every constructor field")
    def rec_pg(e):
        ia_ = isinstance_atom(e)
        if ia_ and ia_[0] == other and ia_[1] == ["_Property"]:
            return ("ISPROP", ia_[2])
        return None

    def lab_pg(p_):
        e_ = ret_expr(p_)
        if e_ is None:
            return p_.exit
        if isinstance(e_, ast.Constant):
            return repr(e_.value)
        if isinstance(e_, ast.BoolOp) and isinstance(e_.op, ast.And) and rec_pg(e_.values[0]) == ("ISPROP", True):
            return "guard-and"
        return "compare"
    tbl_p, opq_p = decision_table(V(ctx, peq).body, ["ISPROP"], rec_pg, lab_pg)
    guard_ok = (tbl_p.get((False,)) == {"False"} and "False" not in tbl_p.get((True,), {"False"})) or \
        (tbl_p.get((True,)) == {"guard-and"} and tbl_p.get((False,)) == {"guard-and"})
    res.judge(True if guard_ok else None, peq, "isinstance(other, _Property) guard",
              reason="a property only equals a property")


# --------------------------------------------------------------------- G14
@rule("G14", "what the JSON serializer writes besides the keyword attributes is part of equality")
def g14(ctx, res):
    eq = ctx.func("Element.__eq__")
    other = eq.params[1].name
    eq_helpers = set()
    for x in walk_own(eq.body):
        if isinstance(x, ast.Call) and isinstance(x.func, ast.Attribute) and norm(x.func.value) in ("self", other) \
                and x.func.attr in ctx.cls("Element").methods:
            eq_helpers.add(x.func.attr)
    # what the JSON serializer writes besides the keyword attributes must be part of equality as well
    se = ctx.func("_serialize_element")
    el = se.params[0].name
    # the serializer and the private helpers it hands the element to (each with its own name for the element)
    scopes = [(se, el)]
    for site in ctx.inf.sites(se)[0]:
        c_ = getattr(site, "callee", None)
        if site.kind == "call" and c_ is not None and c_.cls is None and c_.module is se.module and c_.name.startswith("_") \
                and isinstance(site.node, ast.Call) and c_ is not se:
            for i_, a_ in enumerate(site.node.args):
                if norm(a_) == el and i_ < len(c_.params):
                    scopes.append((c_, c_.params[i_].name))
            for k_ in site.node.keywords:
                if k_.arg and norm(k_.value) == el:
                    scopes.append((c_, k_.arg))
    emitted = sorted({x.attr for g_, nm_ in scopes for x in walk_own(g_.body) if isinstance(x, ast.Attribute) and norm(x.value) == nm_
                      and x.attr.startswith("__") and x.attr.endswith("__") and x.attr not in ("__class__", "__dict__")})
    eq_src = norm(eq.node)
    for hname in eq_helpers:
        eq_src += norm(ctx.cls("Element").methods[hname].node)
    for site in ctx.inf.sites(eq)[0]:
        c_ = getattr(site, "callee", None)
        if site.kind == "call" and c_ is not None and c_.cls is None and c_.module is eq.module and c_.name.startswith("_"):
            eq_src += norm(c_.node)
    for attr in emitted:
        compared = attr in eq_src
        res.judge(True if compared else False, eq, f"{attr} (emitted by the JSON serializer) is compared",
                  detail={"emitted_at": f"_serialize_element :: {el}.{attr}"},
                  reason=f"two object classes that differ only in {attr} compare equal but serialize differently "
                         "(the serializer writes it as `title`): equal elements must serialize to the same JSON Schema")
    res.floor("dunder_attributes_emitted", len(emitted), 1)


# --------------------------------------------------------------------- G11
@rule("G11", "class cycles are tested before anything is yielded and refused with the schema-parse error")
def g11(ctx, res):
    od = ctx.func("orderer")
    # closures and private helpers flattened into one body
    vod = [st for st in V(ctx, od, keep=("object_dependencies", "object_classes")).body if not isinstance(st, ast.FunctionDef)]
    if not any(isinstance(n, (ast.Yield, ast.YieldFrom)) for n in walk_own(vod)):
        raise AnalysisError("orderer no longer yields")
    D = "object_dependencies"
    # (a) the refusal dominates the first yield
    raise_idx = cyc_test = None
    for i, st in enumerate(vod):
        if isinstance(st, ast.If) and not st.orelse and any(
                isinstance(x, ast.Raise) and x.exc is not None and norm(x.exc) == "SchemaParseError.unresolvable_declaration()"
                for x in st.body) and always_exits(st.body):
            raise_idx, cyc_test = i, st.test
            break
    yield_idx = [i for i, st in enumerate(vod) if any(isinstance(x, (ast.Yield, ast.YieldFrom)) for x in ast.walk(st))]
    res.judge(True if (raise_idx is not None and yield_idx and raise_idx < min(yield_idx)) else
              (False if (raise_idx is None or (yield_idx and raise_idx > min(yield_idx))) else None), od,
              "if cycles: raise SchemaParseError.unresolvable_declaration()",
              reason="the cycle refusal dominates the first yield")
    if raise_idx is None:
        return
    bs = builders(vod)
    # (b) cyclic = self-reachable in the dependency table
    def cyclic_builder(b):
        if len(b.guards) != 1 or not b.guards[0][1]:
            return False
        t = norm(b.guards[0][0])
        if norm(b.iter) in (D, f"{D}.keys()", f"list({D})"):
            n_ = norm(b.target)
            return t == f"{n_} in {D}[{n_}]" and norm(b.elt) == n_
        if norm(b.iter) == f"{D}.items()" and isinstance(b.target, ast.Tuple) and len(b.target.elts) == 2:
            n_, d_ = norm(b.target.elts[0]), norm(b.target.elts[1])
            return t in (f"{n_} in {d_}", f"{n_} in {D}[{n_}]") and norm(b.elt) == n_
        return False
    okc = None
    cyc_names = {norm(cyc_test)}
    for b in bs:
        if cyclic_builder(b):
            if (b.name and b.name in cyc_names) or (b.node is not None and any(x is b.node for x in ast.walk(cyc_test))):
                okc = True
    if okc is None and any(match(_parse(fm), cyc_test) is not None for fm in (
            f"any((MV_n in {D}[MV_n] for MV_n in {D}))",
            f"any((MV_n in MV_d for MV_n, MV_d in {D}.items()))",
            f"any((MV_n in {D}[MV_n] for MV_n, MV_d in {D}.items()))")):
        okc = True
    if okc is None:
        # a self-reachability test applied to a NARROWER set than all classes of the table (e.g. only the entry points)
        for b in bs:
            reach_test = any(f"in {D}[" in g_ for g_ in b.guard_texts())
            feeds = (b.name and b.name in cyc_names) or (b.node is not None and any(x is b.node for x in ast.walk(cyc_test)))
            if reach_test and feeds and norm(b.iter) not in (D, f"{D}.keys()", f"list({D})", f"{D}.items()"):
                okc = False
    res.judge(okc, od, "cycles = every name that is among its own dependencies",
              reason="every class is tested for self-reachability")
    # (c) the dependency table holds the TRANSITIVE object-class children, by name
    okd = None
    for b in bs:
        is_table = b.kind == "dict" and b.name == D and b.key is not None
        if not is_table:
            continue
        if norm(b.iter) in (D, f"{D}.keys()", f"list({D})", f"{D}.items()", f"list({D}.items())"):
            continue  # a rewrite of the existing entries (removal of an emitted name): judged by the progress clause
        c_ = norm(b.target)
        key_ok = norm(b.key) == f"{c_}.__name__" or (isinstance(b.key, ast.Name) and has(f"{b.key.id} = {c_}.__name__", vod))
        inner = [ib for ib in builders([ast.Expr(value=b.elt)]) if ib.kind == "list"] if isinstance(b.elt, ast.ListComp) else \
            [ib for ib in bs if isinstance(b.elt, ast.Name) and ib.name == b.elt.id]
        for ib in inner:
            dn = norm(ib.target)
            good = key_ok and norm(ib.iter) == f"get_children({c_})" and norm(ib.elt) == f"{dn}.__name__" \
                and ib.guard_texts() == [f"isinstance({dn}, ObjectMeta)"]
            okd = good if okd is None else (okd and good)
    res.judge(okd, od, "object_dependencies[name] = names of ObjectMeta among get_children(class)",
              reason="dependencies are the TRANSITIVE children (get_children recurses), so self-reachability detects every cycle")
    # (d) progress and (e) what is emitted next
    whiles = [n for n in walk_own(vod) if isinstance(n, ast.While)]
    loop_ok = len(whiles) == 1 and any(isinstance(x, ast.Yield) for x in ast.walk(whiles[0]))
    res.judge(True if loop_ok else None, od, "while True: yield _next()", reason="classes are emitted one at a time")
    if not loop_ok:
        return
    wb = whiles[0].body
    dels = [x for x in walk_own(wb) if isinstance(x, ast.Delete) and any(isinstance(t, ast.Subscript) and norm(t.value) == D for t in x.targets)]
    res.judge(True if dels else None, od, "del object_dependencies[name]", reason="each emitted class is removed, so the loop makes progress")
    okn = None
    picked = None
    FORMS = [f"next(map(lambda MV_a: MV_a[0], filter(lambda MV_b: not MV_b[1], {D}.items())))",
             f"next((MV_n for MV_n, MV_d in {D}.items() if not MV_d))",
             f"next((MV_n for MV_n in {D} if not {D}[MV_n]))"]
    for x in walk_own(wb):
        if isinstance(x, ast.Call) and any(match(_parse(fm), x) is not None for fm in FORMS):
            okn = True
        if isinstance(x, ast.Call) and match(_parse(f"next(iter({D}))"), x) is not None:
            okn = False
    res.judge(okn, od, "_next(): a class with no remaining dependencies", reason="only a class whose dependencies were all emitted is emitted")
    goc = ctx.func("get_object_classes")
    ep0 = goc.params[0].name if goc.params else "elements"
    goc_verdict = True if (has("isinstance(MV_e, ObjectMeta)", goc) and has("get_children(MV_e)", goc) and
                           (has("list(MV_es)", goc) or has(f"chain({ep0}, MV__)", goc) or has(f"itertools.chain({ep0}, MV__)", goc))) else None
    goc_detail = {}
    if goc_verdict is None:
        # positive evidence: the children are walked from a FILTERED selection of the entry points
        ep = goc.params[0].name if goc.params else "elements"
        assigns = {st.targets[0].id: st.value for st in walk_own(goc.body)
                   if isinstance(st, ast.Assign) and len(st.targets) == 1 and isinstance(st.targets[0], ast.Name)}

        def filtered_entry_points(e, depth=0):
            if depth > 3:
                return False
            if isinstance(e, ast.Name) and e.id in assigns:
                return filtered_entry_points(assigns[e.id], depth + 1)
            if isinstance(e, (ast.ListComp, ast.GeneratorExp)) and len(e.generators) == 1 and e.generators[0].ifs \
                    and norm(e.generators[0].iter) in (ep, f"list({ep})") and norm(e.elt) == norm(e.generators[0].target):
                return True
            if isinstance(e, ast.Call) and dotted(e.func) in ("filter", "list", "tuple") and e.args:
                return dotted(e.func) == "filter" and norm(e.args[-1]) == ep and norm(e.args[0]) != "None" or \
                    (dotted(e.func) != "filter" and filtered_entry_points(e.args[0], depth + 1))
            return False
        for x in walk_own(goc.body):
            gens = x.generators if isinstance(x, (ast.ListComp, ast.GeneratorExp, ast.SetComp)) else []
            for i, g_ in enumerate(gens):
                if match(_parse(f"get_children({norm(gens[i - 1].target)})"), g_.iter) is not None and i > 0 \
                        and filtered_entry_points(gens[i - 1].iter):
                    goc_verdict, goc_detail = False, {"children_walked_from": norm(gens[i - 1].iter)[:80]}
            if isinstance(x, ast.For) and filtered_entry_points(x.iter) and has(f"get_children({norm(x.target)})", x.body):
                goc_verdict, goc_detail = False, {"children_walked_from": norm(x.iter)[:80]}
    res.judge(goc_verdict, goc,
              "roots + all children, filtered to object classes", detail=goc_detail,
              reason="every reachable object class is collected: the children of EVERY entry point are walked (an array or "
                     "composition entry point reaches classes too), only the result is filtered to classes")
    gc = ctx.func("get_children")
    el_, seen_ = gc.params[0].name, (gc.params[1].name if len(gc.params) > 1 else "seen")
    by_identity = has(f"id({el_}) in {seen_}", gc) and (has(f"{seen_}.add(id({el_}))", gc) or has(f"{seen_}.append(id({el_}))", gc))
    by_equality = has(f"{el_} in {seen_}", gc) or has(f"{seen_}.append({el_})", gc) or has(f"{seen_}.add({el_})", gc)
    res.judge(True if (by_identity and not by_equality) else (False if by_equality else None), gc,
              "identity-based seen set", reason="the walk terminates on shared and cyclic structures and still reports the revisited node")



def _iterates_python_names(ctx):
    """Iterating a Properties object yields the keys of self.props (the Python names)."""
    it = ctx.cls("Properties").methods.get("__iter__")
    return it is not None and any(isinstance(x, ast.Return) and x.value is not None and norm(x.value) in ("iter(self.props)", "iter(self.props.keys())")
                                  for x in walk_own(it.body))


def props_call_model(ctx):
    """Semantic model of Properties.__call__: the mapping that is iterated is the input merged over placeholders
    for the declared properties.  -> dict (fields None where the shape is not recognised)."""
    pc = ctx.func("Properties.__call__")
    v = pc.params[1].name
    out = {"func": pc, "v": v, "merged": None, "placeholders": [], "overrides_last": None, "result": None}
    for keep in ((v,), ()):
        vb = V(ctx, pc, keep=keep).body
        bs = builders(vb)
        merged = None
        names = set()
        for n in walk_own(vb):
            if isinstance(n, ast.Dict) and n.keys and all(k is None for k in n.keys) and any(norm(x) == v for x in n.values):
                merged = n
        if merged is None:
            continue
        par_names = {v}
        for st in walk_own(vb):
            if isinstance(st, (ast.Assign, ast.AnnAssign)) and st.value is merged:
                tg = st.targets[0] if isinstance(st, ast.Assign) else st.target
                if isinstance(tg, ast.Name):
                    names.add(tg.id)
        iter_texts = {f"{nm}.items()" for nm in names} | {norm(merged) + ".items()", f"({norm(merged)}).items()"}
        out["merged"] = merged
        out["overrides_last"] = norm(merged.values[-1]) == v
        ph = []
        for sp in merged.values:
            if norm(sp) == v:
                continue
            srcs = [b for b in bs if (b.node is sp) or (isinstance(sp, ast.Name) and b.name == sp.id and b.kind == "dict")]
            if not srcs:
                ph.append({"key_kind": "?", "all_declared": None, "elt": norm(sp), "guards": []})
            for b in srcs:
                key_kind = "?"
                all_declared = None
                it = norm(b.iter)
                if it == "self.props.values()":
                    all_declared = True
                    if isinstance(b.key, ast.Attribute) and norm(b.key.value) == norm(b.target):
                        key_kind = {"source": "JS", "name": "PY"}.get(b.key.attr, "?")
                elif it in ("self.props", "self.props.keys()", "self.props.items()") or (it == "self" and _iterates_python_names(ctx)):
                    all_declared = True
                    key_kind = "PY" if norm(b.key) == norm(b.target if not isinstance(b.target, ast.Tuple) else b.target.elts[0]) else "?"
                else:
                    # iterating a mapping built from the declared properties yields that mapping's keys
                    inner = [ib for ib in bs if (ib.node is b.iter) or (isinstance(b.iter, ast.Name) and ib.name == b.iter.id)]
                    for ib in inner:
                        if ib.kind == "dict" and norm(ib.iter) == "self.props.values()" and not ib.guards \
                                and isinstance(ib.key, ast.Attribute) and norm(ib.key.value) == norm(ib.target) \
                                and norm(b.key) == norm(b.target):
                            all_declared = True
                            key_kind = {"source": "JS", "name": "PY"}.get(ib.key.attr, "?")
                ph.append({"key_kind": key_kind, "all_declared": all_declared, "elt": norm(b.elt), "guards": b.guard_texts(), "key": norm(b.key)})
        out["placeholders"] = ph
        for b in bs:
            if b.kind == "dict" and norm(b.iter) in iter_texts and isinstance(b.target, ast.Tuple) and len(b.target.elts) == 2:
                out["result"] = b
        out["body"] = vb
        if out["result"] is not None:
            break
    return out

# --------------------------------------------------------------------- G12
@rule("G12", "containers are rebuilt member by member: nothing dropped, filtered or reordered")
def g12(ctx, res):
    ic = ctx.func("Items.__call__")
    v, prop = ic.params[1].name, ic.params[2].name
    verdict = None
    for b in builders(V(ctx, ic).body):
        if b.kind != "list" or not has("self[MV_i](MV_x, MV__)", b.elt):
            continue
        if norm(b.iter) == f"enumerate({v})" and isinstance(b.target, ast.Tuple) and not b.guards \
                and has(f"self[{norm(b.target.elts[0])}]({norm(b.target.elts[1])}, MV__)", b.elt):
            verdict = True
        else:
            verdict = False
    if verdict is None:
        # the rebuilt list iterates something other than the input itself (zip_longest pads, slices truncate)
        for b in builders(V(ctx, ic).body):
            if b.kind == "list" and any(isinstance(x, ast.Call) and dotted(x.func) in ("zip_longest", "itertools.zip_longest")
                                        for x in ast.walk(ast.Module(body=V(ctx, ic).body, type_ignores=[]))):
                verdict = False
    res.judge(verdict, ic, "[self[index](sub_value, ...) for index, sub_value in enumerate(value)]",
              reason="every item, in order, no filter: arrays keep their length and order")
    pc = ctx.func("Properties.__call__")
    v = pc.params[1].name
    M = ctx.get("props_call_model", lambda c: props_call_model(c))
    ok1 = None
    if M["merged"] is not None and M["placeholders"]:
        ok1 = bool(M["overrides_last"]) and all(ph["all_declared"] and not ph["guards"] and ph["elt"] == "NotPassed()"
                                               for ph in M["placeholders"])
        if not ok1 and any(ph["all_declared"] is None for ph in M["placeholders"]) and M["overrides_last"]:
            ok1 = None
    res.judge(ok1, pc, "value = {**{<placeholder for every declared property>}, **value}",
              detail={"placeholders": M["placeholders"]},
              reason="placeholders for ALL declared properties (no filter); supplied members override placeholders")
    ok2 = None
    rb = M["result"]
    if rb is not None:
        k, sv = norm(rb.target.elts[0]), norm(rb.target.elts[1])
        ok2 = not rb.guards and norm(rb.key) == f"self[{k}].name or {k}" and norm(rb.elt) == f"self[{k}]({sv})"
    if ok2 is None:
        # positive evidence of a wrong split: input members filtered by membership in the PYTHON-keyed property mapping
        for b_ in builders(V(ctx, pc, keep=(v,)).body):
            if b_.kind == "dict" and norm(b_.iter) == f"{v}.items()" and isinstance(b_.target, ast.Tuple) and b_.guards:
                k_ = norm(b_.target.elts[0])
                if any(g_ in (f"{k_} not in self.props", f"not {k_} in self.props", f"{k_} in self.props") for g_ in b_.guard_texts()):
                    ok2 = False
    res.judge(ok2, pc, "{self[key].name or key: self[key](sub_value) for key, sub_value in value.items()}",
              reason="every member of the merged dict is rebuilt: declared ones under their Python name, others under their JSON name "
                     "(input members are keyed by JSON names: selecting them by membership in the Python-keyed property mapping "
                     "duplicates or drops renamed properties)")
    init = ctx.func("Object.__init__")
    ok3 = False
    for n in walk_own(V(ctx, init, keep=(init.params[1].name,)).body):
        if isinstance(n, ast.For) and isinstance(n.target, ast.Tuple) and len(n.target.elts) == 2:
            an, av = norm(n.target.elts[0]), norm(n.target.elts[1])
            store = [st for st in n.body if isinstance(st, ast.Assign) and norm(st.targets[0]) == f"self._dict[{an}]" and norm(st.value) == av]
            cond_set = has(f"if {an} in type(self).properties:\n    setattr(self, {an}, {av})", n.body)
            ok3 = bool(store) and cond_set and not any(isinstance(x, (ast.Continue, ast.Break)) for x in ast.walk(n))
    res.check(ok3, init, "self._dict[name] = value for every pair; setattr only for declared properties",
              reason="every member is stored for item access; only declared properties become attributes")
    res.judge(True if (has("return self._dict[MV_k]", ctx.func("Object.__getitem__"))) else None, ctx.func("Object.__getitem__"), "return self._dict[key]",
              reason="item access reads the complete store")
    # scalar construct is the identity; only Number converts
    n_cons = 0
    for c in element_family(ctx):
        m = c.methods.get("construct")
        if m is None:
            continue
        n_cons += 1
        if c.name in ("Element", "Not", "CompositionElement"):
            continue
        v = m.params[1].name
        if c.name == "Number":
            rets = sorted({norm(ret_expr(p)) for p in enumerate_paths(m.body) if p.exit == "return" and ret_expr(p) is not None})
            res.check(set(rets) <= {f"float({v})", v} and f"float({v})" in rets, m, "return float(value)",
                      detail={"returns": rets}, reason="the only conversion: an accepted integer comes back as the equal float")
            # ... the EQUAL float: float() rounds integers beyond 2**53, so the converted value is returned only where it
            # was compared equal to the original
            from .paths import resolve_on_path as _rop
            unequal = []
            n_conv = 0
            for p_ in enumerate_paths(m.body):
                r_ = ret_expr(p_)
                if p_.exit != "return" or r_ is None or norm(_rop(r_, p_)) != f"float({v})":
                    continue
                n_conv += 1
                tested = False
                for t_, pol_ in p_.conds:
                    if isinstance(t_, str):
                        continue
                    c_ = cmp_atom(_rop(t_, p_), pol_)
                    if c_ and c_[1] == "==" and {c_[0], c_[2]} == {f"float({v})", v}:
                        tested = True
                if not tested:
                    unequal.append(p_.exit_node.lineno)
            res.judge((not unequal) if n_conv else None, m, "the float returned was compared equal to the integer",
                      detail={"converting_returns": n_conv, "returned_without_the_test_at_lines": unequal},
                      reason="float(value) rounds an integer beyond 2**53 to a neighbouring float: the accepted value comes back "
                             "altered (Number()(2**53 + 1) == 9007199254740992.0)")
        else:
            res.violation(m, f"{c.name}.construct", reason="an element class other than Number converts accepted values")
    res.floor("construct_methods", n_cons, 4)
    ac = ctx.cls("_AnonymousObject")
    res.check("dict" in ac.ext_bases() and not ac.methods.get("__init__"), ac.qualname, "class _AnonymousObject(dict)",
              reason="untyped object results are plain dicts of every rebuilt member")
    ip = ctx.func("Items.property")
    res.judge(True if (has("return MV_p.evolve(name=MV__)", ip)) else None, ip, "return property_.evolve(name=...)", reason="per-index property variant")


# --------------------------------------------------------------------- G13
@rule("G13", "distinct members of an accepted object get distinct result keys")
def g13(ctx, res):
    M = ctx.get("props_call_model", lambda c: props_call_model(c))
    pc = M["func"]
    vpc = M.get("body") or []
    verdict = None
    for b in ([M["result"]] if M["result"] is not None else []):
        if True:
            k = norm(b.target.elts[0])
            if norm(b.key) == f"self[{k}].name or {k}":
                # declared members are renamed to their Python name, all others keep their JSON name: injective only if
                # some test keeps an undeclared key from equalling a declared Python name
                tests = [n for n in walk_own(vpc) if isinstance(n, ast.Compare) and any(isinstance(o, (ast.In, ast.NotIn)) for o in n.ops)
                         and ("self.props" in norm(n) or ".name" in norm(n))]
                verdict = True if tests else False
            elif norm(b.key) == k:
                verdict = True
    res.judge(verdict, pc, "{self[key].name or key: ... for key, sub_value in value.items()}",
              reason="a declared property is stored under its Python name and every other member under its JSON name, with no "
                     "test that the two name spaces stay apart: M({'$id': 'x', 'dollar_sign_id': 5}) for a model declaring "
                     "'$id' (attribute dollar_sign_id) keeps only 5 - the declared member is dropped")
