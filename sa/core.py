"""Rule plumbing: obligations, results, registry, shared analysis context."""
import ast
import hashlib
import json
import os

from .model import Program, AnalysisError, Func, norm

RULES = {}


def rule(rule_id, title):
    def deco(fn):
        RULES[rule_id] = (fn, title)
        return fn
    return deco


class Obligation:
    __slots__ = ("rule", "site", "construct", "status", "detail", "reason")

    def __init__(self, rule, site, construct, status, detail=None, reason=""):
        self.rule = rule
        self.site = site
        self.construct = construct
        self.status = status  # ok | violation | justified
        self.detail = detail or {}
        self.reason = reason

    def key(self):
        return (self.rule, self.site, self.construct)

    def as_dict(self):
        d = {"rule": self.rule, "site": self.site, "construct": self.construct, "status": self.status}
        if self.reason:
            d["reason"] = self.reason
        if self.detail:
            d["detail"] = self.detail
        return d

    def digest(self):
        return hashlib.sha1("|".join(self.key()).encode()).hexdigest()[:10]


class RuleResult:
    def __init__(self, rule_id, title):
        self.rule = rule_id
        self.title = title
        self.obligations = []
        self.stats = {}
        self.notes = []
        self.floor_failures = []
        self.unrecognised_items = []

    def _add(self, status, site, construct, detail=None, reason=""):
        if isinstance(site, Func) or (not isinstance(site, str) and hasattr(site, "qualname")):
            site = site.qualname
        if isinstance(construct, ast.AST):
            construct = norm(construct)
        o = Obligation(self.rule, site, construct, status, detail, reason)
        if status == "violation":
            for old in self.obligations:
                if old.status == "violation" and old.key() == o.key():
                    return old  # one report per (rule, site, construct)
        self.obligations.append(o)
        return o

    def ok(self, site, construct, detail=None, reason=""):
        return self._add("ok", site, construct, detail, reason)

    def violation(self, site, construct, detail=None, reason=""):
        return self._add("violation", site, construct, detail, reason)

    def justified(self, site, construct, reason, detail=None):
        return self._add("justified", site, construct, detail, reason)

    def unrecognised(self, site, construct, detail=None, reason=""):
        """The anchor's shape could not be interpreted (neither confirmed nor
        refuted).  Never a pass and never an accusation: if the rule has no
        violation to report, the run ends as an analysis error (exit 2)."""
        if isinstance(site, Func) or (not isinstance(site, str) and hasattr(site, "qualname")):
            site = site.qualname
        self.unrecognised_items.append(f"{site.split('::')[-1]} :: {construct}" + (f" ({reason})" if reason else ""))

    def judge(self, verdict, site, construct, detail=None, reason=""):
        """verdict: True (holds) / False (refuted) / None (shape not recognised)."""
        if verdict is None:
            return self.unrecognised(site, construct, detail, reason)
        return self.check(bool(verdict), site, construct, detail, reason)

    def check(self, cond, site, construct, detail=None, reason=""):
        return self._add("ok" if cond else "violation", site, construct, detail, reason)

    def floor(self, name, count, minimum):
        """Instance floor: a rule that matches fewer instances than were
        confirmed by hand cannot be trusted to pass."""
        self.stats[name] = count
        if count < minimum:
            # deferred: a rule that already found violations reports those; a rule that found none
            # and matched too few instances cannot be trusted to pass (raised in Ctx.rule_result)
            self.floor_failures.append(
                f"rule {self.rule}: instance count '{name}' = {count} fell below the confirmed floor {minimum}")

    def stat(self, name, value):
        self.stats[name] = value

    def violations(self):
        return [o for o in self.obligations if o.status == "violation"]


class Ctx:
    """Shared, lazily built analyses over one program snapshot."""

    def __init__(self, repo_root):
        self.repo_root = repo_root
        self.prog = Program(repo_root)
        self._cache = {}

    @property
    def inf(self):
        if "inf" not in self._cache:
            from .infer import Infer
            self._cache["inf"] = Infer(self.prog)
        return self._cache["inf"]

    def get(self, name, builder):
        if name not in self._cache:
            self._cache[name] = builder(self)
        return self._cache[name]

    def rule_result(self, rule_id):
        key = ("rule", rule_id)
        if key not in self._cache:
            if rule_id not in RULES:
                raise AnalysisError(f"rule {rule_id} is not implemented")
            fn, title = RULES[rule_id]
            res = RuleResult(rule_id, title)
            fn(self, res)
            if res.unrecognised_items and not res.violations():
                raise AnalysisError(f"rule {rule_id}: cannot interpret the current shape of: " + "; ".join(res.unrecognised_items))
            if res.floor_failures and not res.violations():
                raise AnalysisError("; ".join(res.floor_failures))
            self._cache[key] = res
        return self._cache[key]

    # convenience
    def func(self, short):
        return self.prog.find_func(short)

    def cls(self, name):
        return self.prog.find_class(name)


def load_known(path):
    if not os.path.exists(path):
        return []
    with open(path, encoding="utf8") as fh:
        data = json.load(fh)
    return data.get("entries", [])
