"""Property -> rules mapping (DESIGN section 4).  `rules` lists the rules that
are implemented and armed; each rule is documented in DESIGN section 3."""

COMMON_ASSUMPTIONS = [
    "closed world: call resolution is by name/type over the statham package; user subclasses overriding "
    "construct/validators/_validate are outside every claim",
    "the standard library, dateutil and json_ref_dict are modelled by catalogue (documented exceptions, "
    "semantically transparent caches), not analysed",
    "computed attribute access (getattr/setattr with non-literal names) is modelled from the tables that feed it",
]

PROPS = {
    "C01": {
        "rules": ["T4", "T5", "T11", "T6", "T3", "G1", "G1c", "G2", "G3", "G4", "G5", "K6", "T13", "N2", "G7", "T2", "N5"],
        "decides": "Per-keyword conformance skeleton: one type-guarded validator per keyword, spec comparison "
                   "operators, bool-aware deep JSON equality, member resolution cases, composition counting, "
                   "validate-all-then-construct, recursive parsing of every sub-schema position.",
        "not_decided": "that the pieces compose to the Draft-6 verdict for every schema x value; multipleOf "
                       "arithmetic; regex semantics.",
        "assumptions": ["Draft-6 validation spec section 6 frozen as keyword-keyed tables in the checker"],
    },
    "C02": {
        "rules": ["K5", "T10", "T3", "N3", "G11", "T12", "T14", "T13", "D3", "G10", "R3", "T18", "K8"],
        "decides": "class bodies read back only what they bound (declared properties stay out of the namespace); the parser keeps no identity-keyed memo of built classes; schema text reaches emitted source only through repr()/checked emitters/identifiers; every "
                   "annotation name is importable; import discovery walks every keyword position; class names "
                   "are guarded; declaration order obligations of C11.",
        "not_decided": "equality of the executed module with the parsed model; de-duplication correctness.",
    },
    "C03": {
        "rules": ["K2", "K4", "T1", "T3", "T6", "T13", "D3", "T15", "K11", "T16", "K13", "T17", "N5"],
        "decides": "no keyword value is overwritten or deleted on the way out; properties and required are "
                   "emitted under JSON names; every constructor keyword is in the enumeration the serializer "
                   "walks; every nested position is recursed; type names invert the parser's.",
        "not_decided": "that the emitted document accepts the same values; $ref resolvability for multi-root calls.",
    },
    "C04": {
        "rules": ["G12", "P1", "G3", "G4", "G5", "G13"],
        "decides": "containers are rebuilt from all members in order with no filter; scalar construction is the "
                   "identity except Number's float(); the input is never written.",
        "not_decided": "key collisions between JSON and Python names in the result; which composition branch builds it.",
    },
    "C05": {
        "rules": ["G6", "G7", "K4", "K3", "P1", "G3", "K1", "G5"],
        "decides": "the three-way default/marker/value decision and its never-an-error handler in Element.__call__ "
                   "and Object.__new__/__init__; required waived exactly for defaulted properties; placeholders "
                   "keyed in the look-up name space; defaults never tested by truthiness.",
        "not_decided": "conversion 'exactly as if supplied' for nested defaults beyond G6 + purity.",
    },
    "C06": {
        "rules": ["T1", "T2", "T6", "K1", "K2", "K3", "K4", "K7", "D3", "T13", "K9", "K10", "N4", "T3", "K12", "R3", "K13", "N1"],
        "decides": "structural preconditions of the round trip: parser, serializer, repr and class generator "
                   "enumerate the same keywords; nothing read is dropped; falsy values survive; names keep their kind.",
        "not_decided": "the identity itself.",
    },
    "C07": {
        "rules": ["K1", "K3", "K7", "K5", "K8", "K9", "G10", "K10", "T3", "K13"],
        "decides": "a default extracted from the schema is re-attached on every path, never filtered by "
                   "truthiness; only the auto-title annotation is stripped from literals; the description reaches "
                   "the docstring only through an escaping emitter.",
        "not_decided": "character-for-character docstring equality after Python's literal processing.",
    },
    "C08": {
        "rules": ["P1", "P2", "P3", "P5"],
        "decides": "No write construct reachable from Element.__call__ / Object.__new__ / Object.__init__ / "
                   "Property.__call__ targets the element tree, the input value or a module-level object, except the "
                   "convergent binding writes whose side conditions P2 checks; hence verdict and result are a "
                   "function of (current attributes, value).",
        "not_decided": "effects inside the standard library (warnings bookkeeping, re cache): catalogued as "
                       "semantically transparent. Order of validators (a set) can change the error message only.",
        "assumptions": ["CPython GIL-atomic attribute store", "one Property object has one owner"],
    },
    "C09": {
        "rules": ["D1", "D2", "D3"],
        "decides": "every set-typed expression reachable from generation/serialization flows only to "
                   "order-insensitive consumers; no hash()/id()/time/random/environment/listing value reaches "
                   "emitted text or ordering.",
        "not_decided": "determinism of json_ref_dict.materialize (third party).",
        "assumptions": ["CPython dicts preserve insertion order"],
    },
    "C10": {
        "rules": ["X1", "X2", "X3", "X4", "X6"],
        "decides": "Esc(validation roots) within {ValidationError, TypeError}; Esc(parse, parse_element) within the "
                   "SchemaParseError family; message templates only use available keys; params keys exist; no "
                   "unbounded loops in validation/parse graphs.",
        "not_decided": "termination of recursion (structural on acyclic JSON), memory.",
        "assumptions": ["schemas are metaschema-valid; patterns are valid Python regexes",
                        "JSON numbers are finite or the IEEE infinities/NaN produced by json.loads"],
    },
    "C11": {
        "rules": ["T3", "G11", "T13"],
        "decides": "every keyword position a dependency can hide in is walked with the right shape; cycles are "
                   "tested before anything is yielded and refused with the schema-parse error; the loop removes "
                   "one class per iteration.",
        "not_decided": "correctness of the ordering for every graph (algorithmic, not a shape).",
    },
    "C12": {
        "rules": ["N1", "N2", "N3", "T7", "T14", "T12", "N4", "K4", "P2", "N5"],
        "decides": "output alphabet / first character of mapped attribute names, reserved suffix applied last and "
                   "closed; collision handling present; class-name guard present; reserved list covers instance storage.",
        "not_decided": "that dedupe's numeric suffixes never collide with formatted titles.",
    },
    "C13": {
        "rules": ["P4", "P1", "T2", "P7"],
        "decides": "nothing derived from configuration is stored (getters build fresh helpers; no caching "
                   "decorators; no writes): every verdict is computed from the attributes as they are at call time; "
                   "each keyword lives in a plain attribute of its own name.",
        "not_decided": "-",
    },
    "C14": {
        "rules": ["P1", "P2", "P3"],
        "decides": "no shared write => no data race; tolerated writes store equal values from every thread; "
                   "per-call variants are fresh; every container mutated in the graph is activation-local.",
        "not_decided": "-",
        "assumptions": ["CPython GIL-atomic attribute store", "one Property object has one owner"],
    },
    "C15": {
        "rules": ["P6", "T9", "T2", "P1"],
        "decides": "inherited properties pass through clone() (which forwards every field) before insertion; each "
                   "keyword falls back to the inherited attribute of the same name; no library code writes into a "
                   "container the child shares with the parent.",
        "not_decided": "equivalence with the flat class.",
    },
    "C16": {
        "rules": ["G8", "T5", "X1", "P4"],
        "decides": "miss => warn and accept; hit => checker's answer; re-registration replaces; non-strings never "
                   "reach the checker; built-in checkers cannot leak an exception.",
        "not_decided": "that uuid.UUID / dateutil accept every canonical UUID / RFC 3339 timestamp (facts about "
                       "third-party code).",
    },
    "C17": {
        "rules": ["G10", "T2", "K6b", "P4", "T12", "G14", "G15"],
        "decides": "class-guard idiom gives exact-type, symmetric equality; equality inspects every configuration "
                   "attribute; Property equality covers every field; literal comparison inside equality.",
        "not_decided": "'serialize to the same JSON' for classes (names are deliberately not part of equality).",
        "assumptions": ["CPython subclass-first reflected rich comparison"],
    },
    "C18": {
        "rules": ["T2", "R1", "R2", "P4", "P1", "R4"],
        "decides": "every constructor parameter is stored under its own name so the signature-driven repr can read "
                   "it; repr skips exactly values equal to the parameter default and renders everything through "
                   "repr; no stray __repr__ overrides.",
        "not_decided": "eval(repr(x)) == x.",
    },
    "C19": {
        "rules": ["G7", "A1", "A2", "A3", "G3", "G2", "T5", "G13", "K4", "P1", "P4"],
        "decides": "Maybe[] dropped only for required-or-defaulted; leaf annotations agree with the type validator "
                   "and construct; union/list annotations draw from every contributing element; the composition "
                   "result comes from an element the annotation drew from; an omitted property reaches its declared element (and so its default) under its JSON name (K4).",
        "not_decided": "soundness for arbitrary nestings as a whole.",
    },
    "C20": {
        "rules": ["G9", "T3", "T8", "X5", "X7", "G11", "K10"],
        "decides": "the unsupported-keyword test dominates all interpretation of a schema dict; every interpreted "
                   "position is reached only through parse_element; the table covers the documented keywords; "
                   "RecursionError under parse_element is converted and cannot be swallowed; no handler in the parse graph "
                   "swallows the not-implemented error; class cycles refused.",
        "not_decided": "that materialize turns every recursive document into a cyclic dict (third-party contract).",
    },
}
