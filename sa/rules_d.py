"""Determinism rules D1, D2 (DESIGN section 3)."""
import ast
import os

from .core import rule, Ctx, RuleResult
from .model import AnalysisError, dotted, norm, walk_own, Func
from . import unordered
from .paths import Parents

GENERATION_ROOTS = ["main", "parse", "parse_element", "serialize_python", "serialize_json", "title_labeller",
                    "orderer", "get_object_classes", "ObjectMeta.python", "_Property.python"]

FIXTURE_ROOT = os.path.join(os.path.dirname(os.path.dirname(os.path.abspath(__file__))), "fixtures", "posctl")


def fixture_ctx(ctx):
    return ctx.get("fixture_ctx", lambda c: Ctx(FIXTURE_ROOT))


def generation_reach(ctx):
    def build(c):
        roots = [c.func(n) for n in GENERATION_ROOTS]
        return c.inf.reachable(roots)
    return ctx.get("generation_reach", build)


def d1_core(ctx, res, funcs):
    un = ctx.get("unordered", unordered.build)
    n_expr = 0
    for f in sorted(funcs, key=lambda f: f.qualname):
        for node, verdict, why in un.occurrences(f):
            n_expr += 1
            if verdict == "ok":
                res.ok(f, node, reason=why)
            elif verdict == "message":
                res.justified(f, node, "message text only, not generated output: " + why)
            else:
                P = Parents(f)
                st = P.enclosing_stmt(node)
                from .model import head_line
                res.violation(f, head_line(st) if st is not None else node,
                              detail={"expression": norm(node)},
                              reason="hash-seed dependent iteration order reaches an order-sensitive consumer: " + why)
    return n_expr


@rule("D1", "set-typed values reachable from generation/serialization flow only to order-insensitive consumers")
def d1(ctx, res):
    reach = generation_reach(ctx)
    n = d1_core(ctx, res, list(reach))
    res.floor("generation_graph_functions", len(reach), 100)
    res.floor("unordered_expression_occurrences", n, 15)
    # positive control
    fctx = fixture_ctx(ctx)
    fres = RuleResult("D1", "control")
    d1_core(fctx, fres, [fctx.func(n) for n in ("d1_bad", "d1_bad_join", "d1_ok")])
    bad = {o.site.split("::")[1] for o in fres.violations()}
    if bad != {"d1_bad", "d1_bad_join"}:
        raise AnalysisError(f"D1 positive control failed: expected violations in d1_bad and d1_bad_join only, got {sorted(bad)}")
    res.stat("positive_control", "d1_bad, d1_bad_join reported; d1_ok silent")


NONDET_CALLS = {
    "hash": "hash() depends on the string-hash seed",
    "id": "id() is an address",
    "os.listdir": "directory listing order", "os.scandir": "directory listing order", "os.walk": "directory listing order",
    "glob.glob": "directory listing order", "glob": "directory listing order", "listdir": "directory listing order",
    "random.random": "random", "random.choice": "random", "random.shuffle": "random", "random.randint": "random",
    "random.sample": "random", "shuffle": "random",
    "time.time": "clock", "time.monotonic": "clock", "time.perf_counter": "clock", "datetime.now": "clock",
    "datetime.datetime.now": "clock", "datetime.utcnow": "clock", "datetime.today": "clock", "date.today": "clock",
    "uuid.uuid1": "uuid", "uuid.uuid4": "uuid", "uuid1": "uuid", "uuid4": "uuid",
    "os.getpid": "process id", "getpid": "process id", "os.urandom": "random", "os.getenv": "environment",
    "os.environ.get": "environment", "getenv": "environment", "socket.gethostname": "host",
    "getpass.getuser": "user", "object.__repr__": "address-bearing repr", "object.__hash__": "address",
}


def d2_core(ctx, res, funcs):
    inf = ctx.inf
    n = 0
    for f in sorted(funcs, key=lambda f: f.qualname):
        P = Parents(f)
        for node in walk_own(f.body):
            why = None
            if isinstance(node, ast.Call):
                d = dotted(node.func)
                if d in NONDET_CALLS:
                    why = NONDET_CALLS[d]
            elif isinstance(node, ast.Attribute) and dotted(node) == "os.environ":
                why = "environment"
                d = "os.environ"
            if why is None and isinstance(node, ast.Name) and isinstance(node.ctx, ast.Load) and node.id in ("id", "hash") \
                    and node.id not in f.locals():
                par0 = P.parent.get(id(node))
                if not (isinstance(par0, ast.Call) and par0.func is node):
                    why = NONDET_CALLS[node.id] + " (function passed as a value, e.g. a sort key)"
                    d = node.id + "-ref"
            if why is None:
                continue
            n += 1
            par = P.parent.get(id(node))
            fld = P.field.get(id(node))
            ok = False
            reason = why
            if d == "id":
                # identity used only for membership / set insertion / equality
                if isinstance(par, ast.Compare):
                    ok = True
                elif isinstance(par, ast.Call) and isinstance(par.func, ast.Attribute) and par.func.attr in (
                        "add", "discard", "remove", "__contains__"):
                    ok = True
                elif isinstance(par, ast.Subscript) and fld == "slice":
                    # used as a dict key: fine as long as the dict is not iterated - accept only loads
                    ok = isinstance(par.ctx, ast.Load)
            elif d == "hash":
                outer = f
                ok = (f.name == "__hash__" and isinstance(par, ast.Return))
            if ok:
                res.ok(f, node, reason=f"{why}: used for identity/membership only")
            else:
                st = P.enclosing_stmt(node)
                res.violation(f, node, detail={"statement": norm(st)[:200] if st is not None else ""},
                              reason=f"process-dependent value ({why}) may reach generated output or ordering")
        # default (address-bearing) repr of repo instances interpolated into strings
        for node in walk_own(f.body):
            val = None
            if isinstance(node, ast.FormattedValue):
                val = node.value
            elif isinstance(node, ast.Call) and dotted(node.func) in ("repr", "str") and len(node.args) == 1:
                val = node.args[0]
            if val is None:
                continue
            for t in inf.type_of(val, f):
                if t[0] == "inst":
                    c = t[1]
                    has = c.lookup("__repr__") or c.lookup("__str__")
                    ext = c.ext_bases()
                    if not has and not any(b in ("dict", "list", "Exception", "typing.Dict", "typing.NamedTuple", "str", "int") for b in ext):
                        n += 1
                        res.violation(f, node, reason=f"default repr of {c.name} instances contains a memory address")
    return n


@rule("D2", "no process-dependent value (hash, id, clock, random, environment, listing order) reaches output or ordering")
def d2(ctx, res):
    reach = generation_reach(ctx)
    n = d2_core(ctx, res, list(reach))
    res.stat("nondeterminism_sources_in_graph", n)
    fctx = fixture_ctx(ctx)
    fres = RuleResult("D2", "control")
    d2_core(fctx, fres, [fctx.func("d2_bad"), fctx.func("d2_ok")])
    bad = [o for o in fres.violations()]
    sites = {o.site.split("::")[1] for o in bad}
    if sites != {"d2_bad"} or len(bad) < 6:
        raise AnalysisError(f"D2 positive control failed: expected >=6 sources reported in d2_bad only, got {len(bad)} in {sorted(sites)}")
    res.stat("positive_control", f"{len(bad)} sources reported in d2_bad; d2_ok silent")


@rule("D3", "generated output does not depend on process history: no caches, no writes to module-level state")
def d3(ctx, res):
    from . import effects
    from .rules_p import CACHE_DECORATOR_WORDS
    ef = ctx.get("effects", effects.build)
    reach = generation_reach(ctx)
    n_dec = 0
    for f in sorted(reach, key=lambda f: f.qualname):
        for d in f.decorators:
            n_dec += 1
            dn = dotted(d.func if isinstance(d, ast.Call) else d) or norm(d)
            bad = any(w in dn.lower() for w in CACHE_DECORATOR_WORDS)
            res.check(not bad, f, f"@{dn}", reason="no caching decorator in the generation graph (a cached rendering or parse "
                                                   "makes the output depend on what the process generated earlier)")
    n_g = 0
    for f in sorted(reach, key=lambda f: f.qualname):
        for origin, atoms in ef.all_writes(f):
            real = set(atoms) - {effects.F}
            if real != {effects.G}:
                continue  # not (only) module-level state
            n_g += 1
            tolerated = None
            if f.short == "NotPassed.__new__":
                tolerated = "import-time singleton (P2)"
            if tolerated:
                res.justified(f, origin.node, tolerated)
            else:
                res.violation(f, origin.node,
                              reason="write to module-level / class-level state reachable from generation: output would "
                                     "depend on earlier calls in the same process")
    # a mutable default argument is evaluated once: it is process-wide state as soon as it is written through
    n_def = 0
    for f in sorted(reach, key=lambda f: f.qualname):
        for p in f.params:
            if p.default is None:
                continue
            n_def += 1
            dv = ef._default_val(p.default, f)
            if dv == effects.IMM:
                res.ok(f, f"{p.name}={norm(p.default)}", reason="immutable default")
                continue
            written = [o for o, atoms in ef.mut[f].items()
                       if any(isinstance(a, tuple) and a[1] is f and a[2] == p.index for a in atoms)]
            if written and isinstance(p.default, (ast.Call, ast.List, ast.Dict, ast.Set, ast.ListComp, ast.DictComp, ast.SetComp)):
                res.violation(f, f"{p.name}={norm(p.default)}",
                              detail={"written_at": sorted({f"{o.func.short} :: {norm(o.node)[:80]}" for o in written})[:6]},
                              reason="the default object is created once, when the function is defined, and is written through "
                                     "on every call that leaves the argument out: results depend on the earlier calls of the process")
            else:
                res.ok(f, f"{p.name}={norm(p.default)}", reason="shared default object that is never written through this parameter"
                       if not written else "module-level object passed by name")
    res.stat("defaults_in_graph", n_def)
    res.stat("decorators_in_graph", n_dec)
    res.stat("global_write_origins", n_g)
