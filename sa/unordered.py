"""E7 - unordered-iteration analysis.

`unordered(e)`: the expression may evaluate to a collection whose iteration
order depends on the string-hash seed (a set, or a sequence built by iterating
one without sorting).  Every occurrence of such an expression is classified by
its consumer: order-insensitive, message-only, or order-sensitive.
"""
import ast

from .model import Func, dotted, walk_own, norm
from .paths import Parents

ORDER_INSENSITIVE_CALLS = {
    "sorted", "set", "frozenset", "len", "sum", "min", "max", "any", "all", "bool", "isinstance", "id", "type",
    "Counter", "collections.Counter",
}
ORDER_SENSITIVE_CALLS = {
    "list", "tuple", "enumerate", "zip", "map", "filter", "iter", "next", "reversed", "str", "repr", "dict",
    "chain", "itertools.chain", "chain.from_iterable", "itertools.chain.from_iterable", "print", "format",
    "json.dumps", "dumps", "OrderedDict", "collections.OrderedDict",
}
SET_INSENSITIVE_METHODS = {
    "union", "intersection", "difference", "symmetric_difference", "issubset", "issuperset", "isdisjoint",
    "add", "update", "discard", "remove", "clear", "copy", "__contains__", "difference_update",
    "intersection_update", "symmetric_difference_update",
}
PROPAGATING_CALLS = {"list", "tuple", "iter", "reversed", "filter", "map", "enumerate", "zip", "chain",
                     "itertools.chain", "chain.from_iterable", "itertools.chain.from_iterable"}


class Unordered:
    def __init__(self, ctx):
        self.ctx = ctx
        self.prog = ctx.prog
        self.inf = ctx.inf
        self.set_params = set()  # (Func, param name) that receive an unordered argument
        self.unordered_rets = set()  # Funcs whose result is unordered
        self._memo = {}
        self._active = set()
        self._fixpoint()

    def _fixpoint(self):
        for _ in range(8):
            before = (len(self.set_params), len(self.unordered_rets))
            self._memo = {}
            for f in self.prog.all_funcs():
                # returns
                for n in walk_own(f.body):
                    if isinstance(n, ast.Return) and n.value is not None and self.unordered(n.value, f):
                        self.unordered_rets.add(f)
                    if isinstance(n, ast.Yield) and n.value is not None:
                        pass
                # a generator that yields inside a loop over an unordered iterable
                for n in walk_own(f.body):
                    if isinstance(n, ast.For) and self.unordered(n.iter, f):
                        if any(isinstance(x, (ast.Yield, ast.YieldFrom)) for x in ast.walk(n)):
                            self.unordered_rets.add(f)
                # partial(g, a, b): a, b are bound to g's first parameters
                for n in walk_own(f.body):
                    if isinstance(n, ast.Call) and dotted(n.func) in ("partial", "functools.partial") and n.args \
                            and isinstance(n.args[0], ast.Name):
                        r = self.prog.resolve_in(f, n.args[0].id) if isinstance(f, Func) else None
                        if r and r[0] == "func":
                            g = r[1]
                            for j, a in enumerate(n.args[1:]):
                                if j < len(g.params) and self.unordered(a, f):
                                    self.set_params.add((g, g.params[j].name))
                sites, _ = self.inf.sites(f)
                for s in sites:
                    if s.kind not in ("call", "ctor", "new", "closurecall"):
                        continue
                    b = s.bind()
                    for pname, bound in b.items():
                        for x in bound:
                            exprs = []
                            if isinstance(x, ast.AST):
                                exprs = [x]
                            elif isinstance(x, tuple) and x[0] == "pack":
                                exprs = [y for y in x[1] if isinstance(y, ast.AST)]
                            for e in exprs:
                                if self.unordered(e, f):
                                    self.set_params.add((s.callee, pname))
            if (len(self.set_params), len(self.unordered_rets)) == before:
                break
        self._memo = {}

    def is_set_type(self, e, f):
        ts = self.inf.type_of(e, f)
        return any(t in (("b", "set"), ("b", "frozenset")) for t in ts)

    def unordered(self, e, f):
        key = (id(e), id(f))
        if key in self._memo:
            return self._memo[key]
        if key in self._active:
            return False
        self._active.add(key)
        try:
            r = self._unordered(e, f)
        finally:
            self._active.discard(key)
        self._memo[key] = r
        return r

    def _unordered(self, e, f):
        if isinstance(e, (ast.Set, ast.SetComp)):
            return True
        if isinstance(e, ast.Constant):
            return False
        if isinstance(e, ast.Call):
            d = dotted(e.func)
            if d in ("set", "frozenset"):
                return True
            if d == "sorted":
                # sorted() is stable: with a key function, elements whose keys tie keep the order of the input, so an
                # unordered input stays unordered unless the key is the element itself (or an injective rendering)
                kf = next((k.value for k in e.keywords if k.arg == "key"), None)
                if kf is None or dotted(kf) in ("str", "repr"):
                    return False
                if isinstance(kf, ast.Lambda) and len(kf.args.args) == 1 and isinstance(kf.body, ast.Name) \
                        and kf.body.id == kf.args.args[0].arg:
                    return False
                return any(self.unordered(a, f) for a in e.args[:1])
            if d in PROPAGATING_CALLS:
                return any(self.unordered(a.value if isinstance(a, ast.Starred) else a, f) for a in e.args)
            if isinstance(e.func, ast.Attribute):
                m = e.func.attr
                if m in ("union", "intersection", "difference", "symmetric_difference", "copy"):
                    if self.unordered(e.func.value, f) or dotted(e.func.value) in ("set", "frozenset"):
                        return True
                if m in ("keys", "values", "items"):
                    return False
                if m == "join":
                    return False  # consumer handled at the argument
            # repo calls
            if isinstance(f, Func):
                for s in self.inf.sites(f)[0]:
                    if s.node is e and s.kind in ("call",) and s.callee in self.unordered_rets:
                        return True
            return self.is_set_type(e, f)
        if isinstance(e, ast.BinOp) and isinstance(e.op, (ast.BitOr, ast.BitAnd, ast.Sub, ast.BitXor)):
            # set algebra on dictionary views (d.keys() & other) builds a set
            if any(isinstance(x, ast.Call) and isinstance(x.func, ast.Attribute) and x.func.attr in ("keys", "items")
                   and not x.args for x in (e.left, e.right)):
                return True
            return self.unordered(e.left, f) or self.unordered(e.right, f)
        if isinstance(e, ast.BinOp) and isinstance(e.op, ast.Add):
            return self.unordered(e.left, f) or self.unordered(e.right, f)
        if isinstance(e, (ast.ListComp, ast.GeneratorExp, ast.DictComp)):
            return any(self.unordered(g.iter, f) for g in e.generators)
        if isinstance(e, ast.BoolOp):
            return any(self.unordered(v, f) for v in e.values)
        if isinstance(e, ast.IfExp):
            return self.unordered(e.body, f) or self.unordered(e.orelse, f)
        if isinstance(e, ast.Starred):
            return self.unordered(e.value, f)
        if isinstance(e, ast.Name):
            g = f if isinstance(f, Func) else None
            while g is not None:
                if e.id in g.locals():
                    if (g, e.id) in self.set_params:
                        return True
                    for b in self.inf.bindings(g).get(e.id, []):
                        if b[0] in ("assign", "aug") and self.unordered(b[1], g):
                            return True
                    return self.is_set_type(e, f)
                g = g.parent
            mod = f.module if isinstance(f, Func) else f
            r = self.prog.resolve_global(mod, e.id)
            if r and r[0] == "const":
                return self.unordered(r[2], r[1])
            return False
        if isinstance(e, ast.Attribute):
            return self.is_set_type(e, f)
        return False

    # -------------------------------------------------------- classification
    def occurrences(self, f):
        """Yield (node, verdict, why) for each maximal unordered expression
        occurrence in f.  verdict: ok | message | sensitive."""
        P = Parents(f)
        out = []
        for n in walk_own(f.body):
            if not isinstance(n, ast.expr):
                continue
            if isinstance(n, ast.Name) and isinstance(n.ctx, (ast.Store, ast.Del)):
                continue
            if not self.unordered(n, f):
                continue
            par = P.parent.get(id(n))
            fld = P.field.get(id(n))
            verdict, why = self._consumer(n, par, fld, f, P)
            out.append((n, verdict, why))
        return out

    def _in_raise_or_warn(self, node, P):
        cur = node
        while cur is not None:
            par = P.parent.get(id(cur))
            if isinstance(par, ast.Raise):
                return True
            if isinstance(par, ast.Call) and dotted(par.func) in ("warnings.warn", "warn", "LOGGER.info", "LOGGER.debug",
                                                                  "LOGGER.warning", "logging.info"):
                return True
            cur = par
        return False

    def _message_only_callee(self, call, f):
        """The call constructs an exception (factory classmethod of an exception class)."""
        if not isinstance(f, Func):
            return False
        sites = [s for s in self.inf.sites(f)[0] if s.node is call and s.kind in ("call", "ctor", "new")]
        if not sites:
            return False
        for s in sites:
            c = s.callee.cls
            if c is None or "Exception" not in c.ext_bases():
                return False
        return True

    def _consumer(self, n, par, fld, f, P):
        if par is None:
            return "ok", "expression statement"
        if isinstance(par, ast.Starred):
            gp = P.parent.get(id(par))
            if isinstance(gp, ast.Call):
                d = dotted(gp.func)
                if d in ("set.union", "set", "frozenset", "set.intersection", "frozenset.union"):
                    return "ok", f"splat into {d}"
            return "sensitive", "splat of an unordered collection"
        if isinstance(par, ast.Call):
            d = dotted(par.func)
            if par.func is n:
                return "ok", "callee position"
            if isinstance(par.func, ast.Attribute) and par.func.value is n:
                return "ok", "receiver"
            if d in ORDER_INSENSITIVE_CALLS:
                return "ok", f"argument of {d}"
            if d in PROPAGATING_CALLS:
                return "ok", f"argument of {d} (result is itself tracked as unordered)"
            if isinstance(par.func, ast.Attribute) and par.func.attr in SET_INSENSITIVE_METHODS:
                return "ok", f"argument of .{par.func.attr}"
            if isinstance(par.func, ast.Attribute) and par.func.attr == "join":
                return "sensitive", "joined into a string in iteration order"
            if self._in_raise_or_warn(par, P) or self._message_only_callee(par, f):
                return "message", "argument of an exception/warning constructor (message text only)"
            if d in ORDER_SENSITIVE_CALLS:
                return "sensitive", f"argument of {d}"
            # repo call: parameter becomes unordered inside the callee (tracked there)
            if isinstance(f, Func) and any(s.node is par and s.kind in ("call", "ctor", "new", "closurecall")
                                           for s in self.inf.sites(f)[0]):
                return "ok", "passed to a repository function (tracked inside the callee)"
            if d in ("split_dict",):
                return "ok", "passed to a repository function (tracked inside the callee)"
            if d in ("partial", "functools.partial") and par.args and isinstance(par.args[0], ast.Name) and par.args[0] is not n \
                    and isinstance(f, Func):
                r = self.prog.resolve_in(f, par.args[0].id)
                if r and r[0] == "func":
                    return "ok", "bound to a parameter of a repository function by partial (tracked inside the callee)"
            return "sensitive", f"argument of external call {d or norm(par.func)}"
        if isinstance(par, ast.keyword):
            gp = P.parent.get(id(par))
            if isinstance(gp, ast.Call):
                return self._consumer(n, gp, "keywords", f, P) if gp.func is not n else ("ok", "")
        if isinstance(par, ast.Compare):
            return "ok", "comparison / membership"
        if isinstance(par, ast.BinOp) and isinstance(par.op, (ast.BitOr, ast.BitAnd, ast.Sub, ast.BitXor)):
            return "ok", "set algebra"
        if isinstance(par, ast.BinOp) and isinstance(par.op, ast.Add):
            return "ok", "concatenation (result tracked)"
        if isinstance(par, (ast.If, ast.While, ast.IfExp)) and fld == "test":
            return "ok", "truth test"
        if isinstance(par, ast.UnaryOp) and isinstance(par.op, ast.Not):
            return "ok", "truth test"
        if isinstance(par, ast.BoolOp):
            return self._consumer(par, P.parent.get(id(par)), P.field.get(id(par)), f, P)
        if isinstance(par, ast.IfExp):
            return self._consumer(par, P.parent.get(id(par)), P.field.get(id(par)), f, P)
        if isinstance(par, (ast.Assign, ast.AnnAssign, ast.AugAssign, ast.NamedExpr)):
            tgt = par.targets[0] if isinstance(par, ast.Assign) else par.target
            if isinstance(tgt, ast.Name):
                return "ok", "bound to a local (its uses are tracked)"
            if isinstance(tgt, (ast.Tuple, ast.List)):
                return "sensitive", "unpacked positionally"
            if self.is_set_type(n, f) or isinstance(n, (ast.Set, ast.SetComp)):
                return "ok", "a set stored in a field/element (still a set; readers are tracked by type)"
            return "sensitive", "a sequence built in hash-seed dependent order is stored in a field/element"
        if isinstance(par, ast.Return):
            return "ok", "returned (call sites are tracked)"
        if isinstance(par, ast.Expr):
            return "ok", "expression statement"
        if isinstance(par, ast.comprehension) and fld == "iter":
            comp = P.parent.get(id(par))
            if isinstance(comp, ast.SetComp):
                if self._elt_has_effects(comp, f):
                    return "sensitive", "set comprehension whose element expression calls effectful code in iteration order"
                return "ok", "set comprehension (result is a set)"
            if self._elt_has_effects(comp, f):
                return "sensitive", "comprehension over an unordered collection calls effectful repository code in iteration order"
            return "ok", "comprehension (result tracked as unordered)"
        if isinstance(par, ast.For) and fld == "iter":
            return "sensitive", "for-loop over an unordered collection"
        if isinstance(par, (ast.Yield, ast.YieldFrom)):
            return "ok", "yielded (generator result tracked)"
        if isinstance(par, (ast.ListComp, ast.GeneratorExp, ast.SetComp, ast.DictComp)) and fld in ("elt", "key", "value"):
            return "ok", "element of a comprehension (a collection of sets)"
        if isinstance(par, ast.FormattedValue):
            if isinstance(f, Func) and f.cls is not None and "Exception" in f.cls.ext_bases():
                return "message", "interpolated into an exception message (method of an exception class)"
            if self._in_raise_or_warn(par, P):
                return "message", "interpolated into an exception/warning message"
            return "sensitive", "interpolated into a string"
        if isinstance(par, (ast.List, ast.Tuple, ast.Dict, ast.Set)):
            if self.is_set_type(n, f) or isinstance(n, (ast.Set, ast.SetComp)) or \
                    (isinstance(n, ast.Call) and dotted(n.func) in ("set", "frozenset")):
                return "ok", "element of a display (still a set; readers are tracked by type)"
            if isinstance(n, (ast.ListComp, ast.DictComp)) or (isinstance(n, ast.Call) and dotted(n.func) in ("sorted", "list", "tuple", "dict")):
                return "sensitive", "a sequence or mapping built in hash-seed dependent order is placed in a display"
            return "ok", "element of a display"
        if isinstance(par, ast.Subscript):
            if fld == "value":
                return "sensitive", "indexed positionally"
            return "ok", "used as a key"
        if isinstance(par, ast.Attribute):
            return "ok", "attribute access"
        if isinstance(par, ast.Assert):
            return "ok", "assert"
        if isinstance(par, ast.Lambda):
            return "ok", "lambda body (result tracked)"
        return "sensitive", f"unrecognised consumer {type(par).__name__}"

    def _elt_has_effects(self, comp, f):
        """Does the element expression of a comprehension call repository
        code that writes non-fresh state (so that order matters)?"""
        from . import effects as eff
        ef = self.ctx.get("effects", eff.build)
        if not isinstance(f, Func):
            return False
        elts = []
        if isinstance(comp, ast.DictComp):
            elts = [comp.key, comp.value]
        else:
            elts = [comp.elt]
        nodes = set()
        for e in elts:
            for x in ast.walk(e):
                nodes.add(id(x))
        for s in self.inf.sites(f)[0]:
            if id(s.node) in nodes and ef.mut[s.callee]:
                real = [o for o in ef.mut[s.callee] if o.func.short not in ("NotPassed.__new__",)
                        and not (o.what == "primitive")]
                if real:
                    return True
        return False


def build(ctx):
    return Unordered(ctx)
