"""Repr derivation (R1-R2), names (N1-N3) and annotations (A1-A3)."""
import ast
import keyword
import string
import sys
import unicodedata

from .core import rule
from . import rx
from .model import AnalysisError, dotted, norm, walk_own
from .paths import Parents, flat_guards, strip_not, cmp_atom, np_atom, decision_table, enumerate_paths, isinstance_atom
from .pat import has, find, first, name_of, _parse, match
from .rules_t import element_family, own_init, str_elts, module_const


# ---------------------------------------------------------------------- R1
@rule("R1", "repr is derived from the constructor signature: skip iff equal to the default, render everything with repr")
def r1(ctx, res):
    f = ctx.func("custom_repr_args")
    s = f.params[0].name
    from .norm import view
    vb = view(f, ctx.prog).body
    sig_pats = [f"list(inspect.signature(type({s}).__init__).parameters.values())[1:]",
                f"list(inspect.signature({s}.__class__.__init__).parameters.values())[1:]"]
    loops = [n for n in walk_own(vb) if isinstance(n, ast.For) and any(has(sp, n.iter) and norm(n.iter) == norm(first(sp, n.iter)[0]) for sp in sig_pats)]
    res.judge(True if len(loops) == 1 else None, f, "for param in list(inspect.signature(type(self).__init__).parameters.values())[1:]",
              reason="the constructor's own signature (minus self) drives the repr; every parameter is visited")
    if len(loops) != 1:
        return
    lp = loops[0]
    p = norm(lp.target)
    val_texts = {norm(_parse(t)) for t in (f"overrides.get({p}.name, getattr({s}, {p}.name, None))", f"getattr({s}, {p}.name, None)",
                                          f"overrides[{p}.name] if {p}.name in overrides else getattr({s}, {p}.name, None)",
                                          f"getattr({s}, {p}.name, None) if {p}.name not in overrides else overrides[{p}.name]")}
    # the value may also stay in a loop-local name
    val = None
    for node, b in find(f"MV_v = overrides.get({p}.name, getattr({s}, {p}.name, None))", lp.body):
        if isinstance(b["MV_v"], ast.Name):
            val = name_of(b["MV_v"])
    for node, b in find(f"MV_v = getattr({s}, {p}.name, None)", lp.body):
        if isinstance(b["MV_v"], ast.Name):
            val = name_of(b["MV_v"])
    if val is not None:
        val_texts = {val}
    # one iteration of the loop as a decision table: omitted iff value == default; otherwise placed by kind
    from .paths import decision_table_eval, eval3
    from .norm import builders

    def is_val(t):
        return t in val_texts

    truthy_on_value = []

    def ev(e, A):
        c = cmp_atom(e)
        if c and c[1] in ("==", "!=") and ((is_val(c[0]) and c[2] == f"{p}.default") or (is_val(c[2]) and c[0] == f"{p}.default")):
            return A["EQ"] if c[1] == "==" else (not A["EQ"])
        if c and c[1] in ("==", "!=", "is", "is not") and c[0] == f"{p}.kind" and c[2] in (f"{p}.VAR_POSITIONAL", f"{p}.KEYWORD_ONLY"):
            v_ = A["VAR"] if c[2].endswith("VAR_POSITIONAL") else A["KW"]
            return v_ if c[1] in ("==", "is") else (not v_)
        # `isinstance(value, bool) == isinstance(param.default, bool)`: part of a type-strict equality
        if c and c[1] == "==" and {c[0], c[2]} == {f"isinstance({next(iter(val_texts))}, bool)", f"isinstance({p}.default, bool)"}:
            return A["EQ"]
        if c and c[1] == "==" and all(x.startswith("isinstance(") and x.endswith(", bool)") for x in (c[0], c[2])) \
                and any(is_val(x[len("isinstance("):-len(", bool)")]) for x in (c[0], c[2])):
            return A["EQ"]
        if is_val(norm(e)):
            truthy_on_value.append(norm(e))
        return None

    def actions(path):
        acts = set()
        for st in path.stmts:
            if not isinstance(st, ast.AST):
                continue
            for x in ast.walk(st):
                if isinstance(x, ast.Call) and isinstance(x.func, ast.Attribute) and x.args:
                    a0 = x.args[0]
                    if x.func.attr == "extend" and isinstance(a0, ast.BoolOp) and is_val(norm(a0.values[0])):
                        acts.add("extend:" + norm(x.func.value))
                    elif x.func.attr == "extend" and is_val(norm(a0)):
                        acts.add("extend-raw:" + norm(x.func.value))
                    elif x.func.attr == "append" and is_val(norm(a0)):
                        acts.add("append:" + norm(x.func.value))
                if isinstance(x, ast.Assign) and len(x.targets) == 1 and isinstance(x.targets[0], ast.Subscript) \
                        and norm(x.targets[0].slice) == f"{p}.name" and is_val(norm(x.value)):
                    acts.add("kw:" + norm(x.targets[0].value))
        return frozenset(acts)
    table, opaque = decision_table_eval(lp.body, ["EQ", "VAR", "KW"], ev, actions)
    ret = None
    for pth in enumerate_paths(vb):
        if pth.exit == "return" and pth.exit_node.value is not None:
            ret = pth.exit_node.value
    pos_name = kw_name = None
    if isinstance(ret, ast.Call) and dotted(ret.func) == "Args":
        for a_ in ret.args:
            if isinstance(a_, ast.Starred):
                pos_name = norm(a_.value)
        for k_ in ret.keywords:
            if k_.arg is None:
                kw_name = norm(k_.value)
    res.judge(True if (pos_name and kw_name) else None, f, "return Args(*args, **kwargs)", reason="all collected arguments are rendered")
    if not (pos_name and kw_name):
        return
    bad = {}
    for (eq, var, kw), labels in table.items():
        if var and kw:
            continue
        if eq:
            want = {frozenset()}
        elif var:
            want = {frozenset({"extend:" + pos_name})}
        elif kw:
            want = {frozenset({"kw:" + kw_name})}
        else:
            want = {frozenset({"append:" + pos_name})}
        if labels != want:
            bad[str((eq, var, kw))] = sorted(sorted(x) for x in labels)
    omitted_wrongly = any(k.startswith("(False") and [] in v_ for k, v_ in bad.items())
    detail = {"mismatches": bad, "opaque": sorted(opaque), "truthiness_tests_on_the_value": sorted(set(truthy_on_value))}
    verdict = True if not bad else (False if (truthy_on_value or omitted_wrongly or not opaque) else None)
    res.judge(verdict, f, "if value == param.default: continue", detail=detail,
              reason="a keyword is omitted exactly when it EQUALS the constructor default (an equality, not a truthiness test, "
                     "which would hide 0, False, '' and []); otherwise it is put back where the constructor takes it "
                     "(varargs / keyword-only / positional)")
    # sibling cross-check: the omission test and element equality must use the same notion of "equal"
    eq_ = ctx.func("Element.__eq__")
    eq_helpers_ = list(eq_.lambdas) + list(eq_.nested.values()) + [s_.callee for s_ in ctx.inf.sites(eq_)[0]
                                                                  if s_.kind == "call" and s_.callee.module.name.startswith("statham.")]
    eq_bool_aware = has("replace_bool(MV__)", eq_) or has("replace_bool(MV__)", view(eq_, ctx.prog).body) \
        or any(has("replace_bool(MV__)", g_.node) for g_ in eq_helpers_)
    omit_bool_aware = has("replace_bool(MV__)", vb) or has("isinstance(MV__, bool) == isinstance(MV__.default, bool)", vb) \
        or has("replace_bool(MV__)", f) or has("isinstance(MV__, bool) == isinstance(MV__.default, bool)", f)
    res.judge(True if (eq_bool_aware == omit_bool_aware) else False, f, "value == param.default (plain ==) vs Element.__eq__ (bool-aware)",
              reason="repr omits a keyword when it equals the default under Python's ==, but Element.__eq__ tells 0 from False: "
                     "repr(Element(uniqueItems=0)) is 'Element()', which is not equal to the original")
    ar = ctx.func("Args.__repr__")
    var_ = view(ar, ctx.prog).body
    pos_ok = kw_ok = None
    for node, b in find("map(repr, self.args)", var_):
        pos_ok = True
    for b_ in builders(var_):
        if norm(b_.iter) == "self.args":
            good = not b_.guards and norm(b_.elt) in (f"repr({norm(b_.target)})",)
            pos_ok = good if pos_ok is None else (pos_ok and good)
        if norm(b_.iter) == "self.kwargs.items()" and isinstance(b_.target, ast.Tuple) and len(b_.target.elts) == 2:
            k_, v_ = norm(b_.target.elts[0]), norm(b_.target.elts[1])
            good = not b_.guards and isinstance(b_.elt, ast.JoinedStr) and \
                (match(_parse(f"f'{{{k_}}}={{repr({v_})}}'"), b_.elt) is not None or match(_parse(f"f'{{{k_}}}={{{v_}!r}}'"), b_.elt) is not None)
            kw_ok = good if kw_ok is None else (kw_ok and good)
    for x in walk_own(var_):
        if isinstance(x, ast.Call) and dotted(x.func) == "filter" and len(x.args) == 2 and norm(x.args[1]) in ("self.args", "self.kwargs.items()"):
            pos_ok = False   # values are dropped before they are rendered
    if pos_ok is False or kw_ok is False:
        pos_ok, kw_ok = bool(pos_ok), bool(kw_ok)
    res.judge(None if (pos_ok is None or kw_ok is None) else (pos_ok and kw_ok), ar,
              "every positional and keyword value is rendered with repr()", reason="values come back as Python expressions, none filtered")
    cr = ctx.func("custom_repr")
    crv = view(cr, ctx.prog).body
    res.judge(True if has(f"return f'{{type({cr.params[0].name}).__name__}}{{repr(custom_repr_args({cr.params[0].name}, **overrides))}}'", crv) else None, cr,
              "f'{type(self).__name__}{repr(custom_repr_args(self, **overrides))}'", reason="class name followed by the argument list")
    er = ctx.func("Element.__repr__")
    passes_overrides = any(isinstance(x, ast.Call) and dotted(x.func) == "custom_repr" and (x.keywords or len(x.args) > 1)
                           for x in walk_own(er.body))
    res.judge(True if has("return custom_repr(self)", view(er, ctx.prog).body) else (False if passes_overrides else None), er, "return custom_repr(self)",
              reason="elements use the derived repr")


@rule("R3", "a generated class header omits a class keyword only when it is the default, the implied additionalProperties, or the description")
def r3(ctx, res):
    from .norm import view, builders
    from .paths import flatten_guard
    py = ctx.func("ObjectMeta.python")
    vb = view(py, ctx.prog).body
    verdict = None
    detail = {}
    for b in builders(vb):
        if b.kind not in ("list", "gen") or not has("inspect.signature(type(cls).__new__).parameters", b.iter):
            continue
        p = norm(b.target)
        if not isinstance(b.elt, ast.JoinedStr):
            continue
        VAL = [f"getattr(cls, {p}.name, NotPassed())"]
        # locals that hold the value
        for st in walk_own(py.body):
            if isinstance(st, ast.Assign) and len(st.targets) == 1 and isinstance(st.targets[0], ast.Name) \
                    and norm(st.value) == VAL[0]:
                VAL.append(st.targets[0].id)
        reads_value = any(isinstance(x, ast.Call) and dotted(x.func) == "getattr" and len(x.args) >= 2 and norm(x.args[0]) == "cls"
                          for x in ast.walk(b.elt)) or any(v in norm(b.elt) for v in VAL)
        wrong_default = [norm(x) for st in walk_own(py.body) for x in ast.walk(st) if isinstance(x, ast.Call) and dotted(x.func) == "getattr"
                         and len(x.args) == 3 and norm(x.args[0]) == "cls" and norm(x.args[1]) == f"{p}.name"
                         and norm(x.args[2]) != "NotPassed()"]
        conds = [c for t, pol in b.guards for c in flatten_guard(t, pol)]
        allowed = []
        stray = []
        for t, pol in conds:
            txt = ("" if pol else "not ") + norm(t)
            c = cmp_atom(t, pol)
            if c and c[0] == f"{p}.kind" and c[2] == f"{p}.KEYWORD_ONLY" and c[1] == "==":
                allowed.append(txt)
            elif c and c[1] == "!=" and c[2] == f"{p}.default" and c[0] in VAL or c and c[1] == "!=" and c[0] == f"{p}.default" and c[2] in VAL:
                allowed.append(txt)
            elif c and c[0] == f"{p}.name" and c[2] == "'description'" and c[1] == "!=":
                allowed.append(txt)
            elif not pol and isinstance(t, ast.BoolOp) and isinstance(t.op, ast.And) and len(t.values) == 2 \
                    and norm(t.values[0]) == f"{p}.name == 'additionalProperties'" and any(norm(t.values[1]) == f"{v} is True" for v in VAL):
                allowed.append(txt)
            else:
                stray.append(txt)
        # a truthiness test on the value anywhere in the loop decides an omission by falsiness ({} / 0 / [] / Nothing())
        truthy = []
        if isinstance(b.node, ast.For):
            for x in walk_own(b.node.body):
                if isinstance(x, (ast.If, ast.IfExp)):
                    for t_, p_ in flatten_guard(x.test, True) + flatten_guard(x.test, False):
                        t0, _ = strip_not(t_, p_)
                        if norm(t0) in VAL:
                            truthy.append(norm(x.test))
        detail = {"filters": allowed, "other_filters": stray, "value_read_with_another_fallback": wrong_default,
                  "truthiness_tests_on_the_value": sorted(set(truthy))}
        if wrong_default or truthy or any(any(v in s_ for v in VAL) or "value" in s_ for s_ in stray):
            verdict = False
        elif stray:
            verdict = None
        else:
            verdict = True if len(allowed) == 4 and reads_value else None
    res.judge(verdict, py, "cls_args: every keyword-only parameter whose value differs from its default", detail=detail,
              reason="a class keyword is left out of the generated header although its value is not the constructor default "
                     "(for example a `default` or `const` of None - JSON null): the executed class differs from the parsed one")


# ---------------------------------------------------------------------- R2
@rule("R2", "no element class overrides the derived repr; Property repr drops `source` only when it equals the bound name")
def r2(ctx, res):
    for c in element_family(ctx):
        if "__repr__" in c.methods:
            res.check(c.name in ("Element", "ObjectMeta"), c.qualname, f"{c.name}.__repr__",
                      reason="only Element (derived repr) and ObjectMeta (class name) define __repr__")
    om = ctx.func("ObjectMeta.__repr__")
    res.judge(True if (has("return cls.__name__", om)) else None, om, "return cls.__name__", reason="a class is referred to by its name")
    pr = ctx.func("_Property.__repr__")
    ra = None
    for node, b in find("MV_r = custom_repr_args(self)", pr):
        ra = name_of(b["MV_r"])
    res.check(ra is not None, pr, "repr_args = custom_repr_args(self)", reason="property repr is derived from its constructor signature")
    if ra is None:
        return
    pops = [n for n in walk_own(pr.body) if isinstance(n, ast.Call) and isinstance(n.func, ast.Attribute) and n.func.attr in ("pop", "__delitem__")]
    dels = [n for n in walk_own(pr.body) if isinstance(n, ast.Delete)]
    P = Parents(pr)
    ok = len(pops) + len(dels) == 1
    if pops:
        gs = flat_guards(P, pops[0])
        ok = ok and norm(pops[0].func.value) == f"{ra}.kwargs" and pops[0].args and norm(pops[0].args[0]) == "'source'" and \
            any(norm(t) in ("self.source == self.name", "self.name == self.source") and pol for t, pol in gs)
    res.check(ok, pr, "if self.source == self.name: repr_args.kwargs.pop('source', None)",
              reason="`source` is omitted only when it is what binding would infer anyway")
    res.judge(True if (has("self.__class__.__name__.lstrip('_')", pr) or has("type(self).__name__.lstrip('_')", pr)) else None, pr,
              "class name without the leading underscore", reason="the public constructor name `Property` is printed")
    bang_r = any(isinstance(n, ast.FormattedValue) and n.conversion == 114 and norm(n.value) == ra and n.format_spec is None
                 for n in walk_own(pr.body))  # f"{repr_args!r}" is repr(repr_args)
    res.judge(True if (has(f"repr({ra})", pr) or bang_r) else None, pr, "repr(repr_args)", reason="arguments rendered by Args.__repr__")


@rule("R4", "a property wrapper's repr, evaluated on its own, rebuilds an equal wrapper")
def r4(ctx, res):
    """_Property.__eq__ compares some attributes; the repr may leave one of them out only when it holds the constructor's
    default - any other omission condition (a state that binding produced) makes eval(repr(p)) differ from p."""
    pr = ctx.func("_Property.__repr__")
    peq = ctx.func("_Property.__eq__")
    other = peq.params[1].name
    compared = sorted({x.left.attr for x in walk_own(peq.body) if isinstance(x, ast.Compare) and len(x.ops) == 1
                       and isinstance(x.ops[0], ast.Eq) and isinstance(x.left, ast.Attribute) and norm(x.left.value) == "self"
                       and isinstance(x.comparators[0], ast.Attribute) and norm(x.comparators[0].value) == other
                       and x.comparators[0].attr == x.left.attr})
    res.floor("attributes_compared_by_property_eq", len(compared), 2)
    init = ctx.func("_Property.__init__")
    defaults = {q.name: (norm(q.default) if q.default is not None else None) for q in init.params}
    P = Parents(pr)
    n = 0
    for call in walk_own(pr.body):
        if not (isinstance(call, ast.Call) and isinstance(call.func, ast.Attribute) and call.func.attr == "pop" and call.args
                and isinstance(call.args[0], ast.Constant) and call.args[0].value in compared):
            continue
        n += 1
        field = call.args[0].value
        gs = flat_guards(P, call)
        implies_default = any((cmp_atom(t, pol) or (None,) * 3)[:3] in ((f"self.{field}", "==", defaults.get(field)),
                                                                          (f"self.{field}", "is", defaults.get(field))) for t, pol in gs)
        res.judge(True if implies_default else False, pr, f"`{field}` is left out of the repr only when it holds the constructor default",
                  detail={"omitted_when": [("" if pol else "not ") + norm(t) for t, pol in gs], "constructor_default": defaults.get(field)},
                  reason=f"`{field}` takes part in property equality, but the repr omits it in a state the constructor cannot "
                         "reproduce: the wrapper rebuilt from the text is not equal to the original")
    res.stat("conditional_omissions", n)


# ---------------------------------------------------------------------- N1
def _char_pred(test, var):
    """Translate a condition on a single character into a Python predicate
    built from stdlib string predicates only; None if unrecognised."""
    if isinstance(test, ast.BoolOp):
        parts = [_char_pred(v, var) for v in test.values]
        if any(p is None for p in parts):
            return None
        if isinstance(test.op, ast.And):
            return lambda c: all(p(c) for p in parts)
        return lambda c: any(p(c) for p in parts)
    if isinstance(test, ast.UnaryOp) and isinstance(test.op, ast.Not):
        p = _char_pred(test.operand, var)
        return None if p is None else (lambda c: not p(c))
    if isinstance(test, ast.Call) and isinstance(test.func, ast.Attribute) and not test.args:
        m = test.func.attr
        recv = test.func.value
        if m in ("isalnum", "isalpha", "isdigit", "isdecimal", "isnumeric", "isidentifier", "isascii", "isspace",
                 "isprintable", "islower", "isupper"):
            if norm(recv) == var:
                return lambda c: getattr(c, m)()
            # ("_" + char).isidentifier()
            if isinstance(recv, ast.BinOp) and isinstance(recv.op, ast.Add) and isinstance(recv.left, ast.Constant) \
                    and norm(recv.right) == var and isinstance(recv.left.value, str):
                pre = recv.left.value
                return lambda c: getattr(pre + c, m)()
    if isinstance(test, ast.Compare) and len(test.ops) == 1 and norm(test.left) == var:
        r = test.comparators[0]
        vals = None
        if isinstance(r, (ast.Tuple, ast.List, ast.Set)) and all(isinstance(x, ast.Constant) for x in r.elts):
            vals = set(x.value for x in r.elts)
        elif isinstance(r, ast.Constant) and isinstance(r.value, str):
            vals = set(r.value)
        elif dotted(r) and dotted(r).startswith("string.") and hasattr(string, dotted(r).split(".")[1]):
            vals = set(getattr(string, dotted(r).split(".")[1]))
        if vals is not None:
            if isinstance(test.ops[0], ast.In):
                return lambda c: c in vals
            if isinstance(test.ops[0], ast.NotIn):
                return lambda c: c not in vals
            if isinstance(test.ops[0], ast.Eq) and isinstance(r, ast.Constant):
                return lambda c: c == r.value
    return None


def _idcont(c):
    return ("a" + c).isidentifier()


@rule("N1", "mapped attribute names are valid identifiers: kept characters are identifier characters; prefix/suffix repairs come last")
def n1(ctx, res):
    pan = ctx.func("_parse_attribute_name")
    cm = pan.nested.get("_char_map")
    if cm is None:
        # the per-character function is whatever is mapped over enumerate(name): map(expand(F), enumerate(name)),
        # F possibly partial(G, name) or a module-level function
        for node, b in list(find("map(MV_f, enumerate(MV_n))", pan)):
            fexpr = b["MV_f"]
            while isinstance(fexpr, ast.Call) and dotted(fexpr.func) in ("expand", "partial", "functools.partial") and fexpr.args:
                fexpr = fexpr.args[0]
            if isinstance(fexpr, ast.Name):
                r = ctx.prog.resolve_in(pan, fexpr.id)
                if r and r[0] == "func":
                    cm = r[1]
    if cm is None:
        raise AnalysisError("_parse_attribute_name: the per-character mapping function (mapped over enumerate(name)) was not found")
    ch = cm.params[-1].name
    keep_test = None
    for st in cm.body:
        if isinstance(st, ast.If) and len(st.body) == 1 and isinstance(st.body[0], ast.Return) and norm(st.body[0].value) == ch:
            keep_test = st.test
            break
    if keep_test is None:
        raise AnalysisError("_char_map: the 'keep this character' branch is no longer recognisable")
    pred = _char_pred(keep_test, ch)
    if pred is None:
        raise AnalysisError(f"_char_map: cannot abstract the keep-condition `{norm(keep_test)}` into stdlib character predicates")
    # post-processing replaces on the joined name
    repl = {}
    for n in walk_own(pan.body):
        if isinstance(n, ast.Call) and isinstance(n.func, ast.Attribute) and n.func.attr == "replace" and len(n.args) == 2 \
                and all(isinstance(a, ast.Constant) and isinstance(a.value, str) for a in n.args):
            repl[n.args[0].value] = n.args[1].value
    bad = []
    n_kept = 0
    for cp in range(sys.maxunicode + 1):
        c = chr(cp)
        if not pred(c):
            continue
        n_kept += 1
        out = repl.get(c, c)
        if not all(_idcont(x) for x in out):
            bad.append(cp)
    res.check(not bad, cm, f"kept characters: {norm(keep_test)}",
              detail={"kept": n_kept, "not_identifier_characters": len(bad),
                      "first_witnesses": [f"U+{cp:04X} {chr(cp)!r}" for cp in bad[:5]]},
              reason="every character copied into the attribute name (after the ' '/'-' -> '_' replacement) may occur in a "
                     "Python identifier - decided over all code points with the interpreter's own tables")
    # Python reads identifiers in NFKC (PEP 3131): a kept character that is not its own NFKC form makes the name that
    # the generated module binds differ from the parsed attribute name - unless the name is normalised first
    normalises = any(isinstance(x, ast.Call) and dotted(x.func) in ("unicodedata.normalize", "normalize") and x.args
                     and isinstance(x.args[0], ast.Constant) and x.args[0].value == "NFKC" for x in walk_own(pan.body))
    unstable = [cp for cp in range(sys.maxunicode + 1) if pred(chr(cp)) and unicodedata.normalize("NFKC", repl.get(chr(cp), chr(cp))) != repl.get(chr(cp), chr(cp))]
    res.judge(True if (normalises or not unstable) else False, pan, "kept characters are stable under NFKC, or the name is normalised first",
              detail={"normalises": normalises, "unstable_kept_characters": len(unstable),
                      "first_witnesses": [f"U+{cp:04X} {chr(cp)!r} -> {unicodedata.normalize('NFKC', chr(cp))!r}" for cp in unstable[:5]]},
              reason="the generated module declares the property under the NFKC form of the name (Python normalises identifiers), "
                     "which is a different attribute from the parsed one - or a keyword, for a full-width spelling of one")
    # whitespace branch and label alphabet
    ws_ok = has(f"if {ch} in string.whitespace:\n    return '_'", cm)
    res.check(ws_ok, cm, "whitespace -> '_'", reason="other whitespace becomes an underscore")
    label_ok = has(f"MV_l = unicodedata.name({ch}, 'unknown').lower()", cm)
    res.check(label_ok, cm, "label = unicodedata.name(char, 'unknown').lower()", reason="symbols become their Unicode name (with a fallback, so no ValueError)")
    alphabet = set("unknown")
    for cp in range(sys.maxunicode + 1):
        nm = unicodedata.name(chr(cp), None)
        if nm:
            alphabet |= set(nm.lower())
    mapped = set()
    for a in alphabet:
        mapped |= set(repl.get(a, a))
    bad_label = sorted(x for x in mapped if not _idcont(x))
    res.check(not bad_label, cm, "alphabet of Unicode character names after replacement", detail={"bad": bad_label, "alphabet": "".join(sorted(mapped))},
              reason="labels only contain identifier characters once ' ' and '-' are replaced")
    # first character repair, blank, reserved suffix last
    res.judge(True if (has("if not MV_n:\n    return 'blank'", pan)) else None, pan, "empty -> 'blank'", reason="the empty name maps to an identifier")
    def charset(e, depth=0):
        """Statically evaluate a set-of-characters expression built from constants."""
        if depth > 6:
            return None
        if isinstance(e, ast.Constant) and isinstance(e.value, str):
            return set(e.value)
        if isinstance(e, (ast.Set, ast.Tuple, ast.List)) and all(isinstance(x, ast.Constant) and isinstance(x.value, str) for x in e.elts):
            return set(x.value for x in e.elts)
        if isinstance(e, ast.Call) and dotted(e.func) in ("set", "frozenset", "tuple", "list") and len(e.args) == 1:
            return charset(e.args[0], depth + 1)
        if isinstance(e, ast.BinOp) and isinstance(e.op, (ast.BitOr, ast.Add)):
            a, b_ = charset(e.left, depth + 1), charset(e.right, depth + 1)
            return None if a is None or b_ is None else a | b_
        d = dotted(e)
        if d and d.startswith("string.") and hasattr(string, d.split(".")[1]):
            return set(getattr(string, d.split(".")[1]))
        if isinstance(e, ast.Name):
            r = ctx.prog.resolve_in(pan, e.id)
            if r and r[0] == "const":
                return charset(r[2], depth + 1)
            if r and r[0] == "local":
                vals = [b[1] for b in ctx.inf.bindings(pan).get(e.id, []) if b[0] == "assign"]
                if len(vals) == 1:
                    return charset(vals[0], depth + 1)
        return None
    ok_first = None
    for node, b in find("if MV_n[0] not in MV_f:\n    MV_n = f'_{MV_n}'", pan):
        cs = charset(b["MV_f"])
        if cs is not None:
            ok_first = all(("" + c).isidentifier() for c in cs) and bool(cs)
    for node, b in find("if not MV_n[0] in MV_f:\n    MV_n = '_' + MV_n", pan):
        cs = charset(b["MV_f"])
        if cs is not None:
            ok_first = all(c.isidentifier() for c in cs) and bool(cs)
    first_detail = {}
    if ok_first is None:
        # general form: `if <condition on name[0]>: name = '_' + name` - decided over every character that can come first
        from .norm import view
        for st in walk_own(view(pan, ctx.prog).body):
            if not (isinstance(st, ast.If) and not st.orelse and len(st.body) == 1):
                continue
            nm = None
            for node, b in list(find("MV_n = f'_{MV_n}'", st.body)) + list(find("MV_n = '_' + MV_n", st.body)):
                nm = name_of(b["MV_n"])
            if nm is None:
                continue

            def with_charsets(test):
                """_char_pred plus `in <charset expression>` resolved through locals/constants."""
                if isinstance(test, ast.Compare) and len(test.ops) == 1 and norm(test.left) == f"{nm}[0]" \
                        and isinstance(test.ops[0], (ast.In, ast.NotIn)):
                    cs = charset(test.comparators[0])
                    if cs is not None:
                        return (lambda c: c in cs) if isinstance(test.ops[0], ast.In) else (lambda c: c not in cs)
                if isinstance(test, ast.UnaryOp) and isinstance(test.op, ast.Not):
                    q = with_charsets(test.operand)
                    return None if q is None else (lambda c: not q(c))
                if isinstance(test, ast.BoolOp):
                    qs = [with_charsets(v) for v in test.values]
                    if any(q is None for q in qs):
                        return None
                    return (lambda c: all(q(c) for q in qs)) if isinstance(test.op, ast.And) else (lambda c: any(q(c) for q in qs))
                return _char_pred(test, f"{nm}[0]")
            prefixed = with_charsets(st.test)
            if prefixed is None:
                continue
            firsts = set(mapped) | {"_"}
            for cp in range(sys.maxunicode + 1):
                c = chr(cp)
                if pred(c):
                    firsts |= set(repl.get(c, c))
            bad_first = sorted(c for c in firsts if c and not prefixed(c) and not c.isidentifier())
            ok_first = not bad_first
            first_detail = {"condition": norm(st.test), "possible_first_characters": len(firsts),
                            "left_unprefixed_but_not_an_identifier_start": [f"U+{ord(c):04X}" for c in bad_first[:8]]}
    res.judge(ok_first, pan, "if name[0] not in ascii_letters + '_': name = '_' + name", detail=first_detail,
              reason="the first character is an identifier start")
    last_if = [st for st in pan.body if isinstance(st, ast.If)]
    ok_last = bool(last_if) and has("MV_n in RESERVED_PROPERTIES", last_if[-1].test) and \
        any(True for _ in find("MV_n = f'{MV_n}_'", last_if[-1].body)) and isinstance(pan.body[-1], ast.Return) and \
        pan.body.index(last_if[-1]) == len(pan.body) - 2
    res.check(ok_last, pan, "reserved names get a trailing '_' as the LAST transformation",
              reason="no later step can turn the result back into a reserved name")
    if last_if:
        t_ = last_if[-1].test
        exact = match(_parse("MV_n in RESERVED_PROPERTIES"), t_) is not None
        widened = isinstance(t_, ast.BoolOp) and isinstance(t_.op, ast.Or) and any(
            isinstance(v_, ast.Compare) and isinstance(v_.ops[0], ast.In) and isinstance(v_.left, ast.Call) for v_ in t_.values)
        res.judge(True if exact else (False if widened else None), pan, "if name in RESERVED_PROPERTIES (the name itself, nothing derived from it)",
                  reason="the parser maps names of a schema dict in place and visits shared dicts again: the mapping must leave its own "
                         "results alone (idempotent). A test on a DERIVED name (name.rstrip('_') ...) also fires on `from_`, which "
                         "becomes `from__` on the second visit")
    # class-private name mangling: '_' is a kept character, so '__x' passes through unchanged unless handled
    keeps_underscore = pred("_")
    vpan = norm(pan.node)
    handled = has("MV_n.startswith('__')", pan)
    res.judge(True if (handled or not keeps_underscore) else False, pan, "names starting with '__' are rewritten",
              reason="an attribute called __x is name-mangled to _Class__x inside a generated class body, so the generated "
                     "class declares a different property than the parsed one")
    res.stat("kept_code_points", n_kept)


# ---------------------------------------------------------------------- N2
@rule("N2", "two different property names of one object never collapse onto one attribute")
def n2(ctx, res):
    pp = ctx.func("_parse_properties")
    # is there any collision handling where mapped names become dict keys?
    handled = False
    for n in walk_own(pp.body):
        if isinstance(n, ast.Compare) and any(isinstance(o, (ast.In, ast.NotIn)) for o in n.ops) and \
                "_parse_attribute_name" in norm(n):
            handled = True
        if isinstance(n, ast.Call) and dotted(n.func) and "unique" in dotted(n.func).lower():
            handled = True
    res.check(handled, pp, "{_parse_attribute_name(key): ... for key in properties}",
              reason="the name map is not injective (' ', '-' and '_' all become '_'; symbols become words), and the mapped "
                     "names are used as dict keys with no collision handling: 'a b', 'a-b' and 'a_b' collapse onto one attribute")
    # the same map decides whether a name listed in `required` has a declaration
    from .norm import view, builders
    po = ctx.func("_parse_object")
    verdict = None
    for b in builders(view(po, ctx.prog, keep=("properties",)).body):
        if b.kind == "dict" and has("MV_s.get('required', MV__)", b.iter) and isinstance(b.target, ast.Name):
            kn = b.target.id
            gt = b.guard_texts()
            by_mapped = any(g.replace("not ", "").startswith(f"_parse_attribute_name({kn})") and " in " in g for g in gt)
            by_source = any(".source" in g for g in gt)
            verdict = False if (by_mapped and not by_source) else (True if by_source else None)
    res.judge(verdict, po, "required names without a declaration: _parse_attribute_name(key) not in properties",
              reason="whether a required JSON name is already declared is decided by its MAPPED attribute name: 'a_b' listed in "
                     "required counts as declared because the property 'a-b' maps onto the same attribute, and the requirement "
                     "is silently lost")


# ---------------------------------------------------------------------- N3
def _module_bound_names(ctx):
    names = {"Any", "List", "Union", "Maybe", "Property"}
    mod = ctx.prog.modules.get("statham.schema.elements")
    if mod:
        names |= set(mod.imports)
    return names


@rule("N3", "object titles become valid class names that do not collide with names the generated module binds")
def n3(ctx, res):
    po = ctx.func("_parse_object")
    # the value passed as the class name must go through a guard after _title_format
    from .norm import view
    calls = [n for n in walk_own(view(po, ctx.prog).body) if isinstance(n, ast.Call) and dotted(n.func) == "ObjectMeta" and n.args]
    if not calls:
        raise AnalysisError("_parse_object no longer builds the class with ObjectMeta(title, ...)")
    name_arg = calls[0].args[0]
    guard_funcs = []
    for gname in ("_class_name", "_parse_class_name", "_safe_title"):
        r_ = ctx.prog.resolve_in(po, gname)  # defined in the parser or imported into it from another repository module
        if r_ and r_[0] == "func" and hasattr(r_[1], "body") and r_[1] not in guard_funcs:
            guard_funcs.append(r_[1])
    guarded = False
    detail = {}
    for g in guard_funcs:
        # fully normalised view: the name argument IS the guard call (or a local bound to one)
        if has(f"{g.name}(MV__)", name_arg):
            guarded = True
            detail["guard"] = g.name
    if not guarded and isinstance(name_arg, ast.Name):
        binds = ctx.inf.bindings(po).get(name_arg.id, [])
        exprs = [b[1] for b in binds if b[0] == "assign"]
        for e in exprs:
            for g in guard_funcs:
                if has(f"{g.name}(MV__)", e):
                    guarded = True
                    detail["guard"] = g.name
    unguarded_format = has("_title_format(MV__)", name_arg) and not guarded
    res.judge(True if guarded else (False if (unguarded_format or not guard_funcs) else None), po, "title = _title_format(title); ObjectMeta(title, ...)", detail=detail,
              reason="between formatting the title and creating the class there is no step that repairs or rejects the empty "
                     "string ('1' -> ''), keywords ('none' -> None) and names the generated module binds itself ('string' -> String)")
    if guarded:
        g = guard_funcs[0]
        gsrc = norm(g.node)
        res.check("iskeyword" in gsrc or "kwlist" in gsrc, g, "keyword check", reason="Python keywords are repaired")
        res.check("_title_format" in gsrc, g, "_title_format(...)", reason="the guard wraps the formatter")
        bound = _module_bound_names(ctx)
        lits = set()
        for n in ast.walk(g.node):
            if isinstance(n, ast.Constant) and isinstance(n.value, str):
                lits.add(n.value)
        mod_consts = set()
        for cname, cexpr in g.module.consts.items():
            got = str_elts(cexpr)
            if got and cname.isupper():
                mod_consts |= set(got)
        missing = sorted(bound - lits - mod_consts)
        res.check(not missing, g, "names bound by the generated module are reserved", detail={"missing": missing},
                  reason="a class may not be called like an import of the generated module")
    # dedupe gives distinct names to distinct classes
    dd = ctx.func("_ParseState.dedupe")
    from .norm import view
    o = dd.params[1].name
    vb = view(dd, ctx.prog).body
    # locals read as what they stand for (the name is read BEFORE the class is renamed, so aliases are kept by the
    # normaliser; here only their text matters)
    from .norm import _subst_expr
    env = {}
    for st in walk_own(vb):
        if isinstance(st, (ast.Assign, ast.AnnAssign)) and st.value is not None:
            tg = st.targets[0] if isinstance(st, ast.Assign) and len(st.targets) == 1 else getattr(st, "target", None)
            if isinstance(tg, ast.Name):
                env[tg.id] = st.value if tg.id not in env else None
    env = {k: v for k, v in env.items() if v is not None}

    def R(e):
        for _ in range(3):
            e = _subst_expr(e, env)
        return norm(e)
    cnt = f"len(self.seen[{o}.__name__])"
    okd = None
    renames = [st for st in walk_own(vb) if isinstance(st, ast.Assign) and any(norm(t) == f"{o}.__name__" for t in st.targets)]
    if renames:
        rn = renames[0]
        val_ok = R(rn.value) in (f"{o}.__name__ + f'_{{{cnt}}}'", f"f'{{{o}.__name__}}_{{{cnt}}}'", f"{o}.__name__ + '_' + str({cnt})")
        gs = flat_guards(Parents(vb), rn)
        guard_ok = False
        for t, pol in gs:
            t0, p0 = strip_not(t, pol)
            if R(t0) in (cnt, f"self.seen[{o}.__name__]") and p0:
                guard_ok = True  # a non-empty list is truthy: the same test as its length
            c = cmp_atom(t, pol)
            if c and (R(c[3]), c[1], c[2]) in ((cnt, ">", "0"), (cnt, "!=", "0"), (cnt, ">=", "1")):
                guard_ok = True
        appended = any(isinstance(x, ast.Call) and isinstance(x.func, ast.Attribute) and x.func.attr == "append"
                       and R(x.func.value) == f"self.seen[{o}.__name__]" and x.args and norm(x.args[0]) == o for x in walk_own(vb))
        okd = True if (val_ok and guard_ok and appended) else (False if not val_ok and "_" not in R(rn.value) else None)
    res.judge(okd, dd, "repeated titles get a numeric suffix", reason="distinct classes with one title get distinct names")
    tf = ctx.func("_title_format")
    delim, seg = _title_patterns(ctx, tf)
    verdict = None
    detail = {"delimiter": delim}
    if delim is not None:
        pred_d = rx.single_class(delim)
        if pred_d is not None:
            import string as _string
            alnum = set(_string.ascii_letters + _string.digits)
            wrong = [cp for cp in range(sys.maxunicode + 1) if pred_d(chr(cp)) != (chr(cp) not in alnum)]
            verdict = not wrong
            detail["code_points_classified_differently"] = [f"U+{cp:04X}" for cp in wrong[:6]]
    res.judge(verdict, tf, "re.split('[^a-zA-Z0-9]', name)", detail=detail,
              reason="formatted titles contain ASCII letters and digits only (so a '_<n>' suffix cannot collide with a formatted title)")


def _title_patterns(ctx, tf):
    """(delimiter pattern, segment pattern) of _title_format: the constant given to re.split / re.findall,
    directly or through a module-level compiled pattern."""
    from .rules_t import deref_const
    delim = seg = None
    from .norm import view
    for n in walk_own(view(tf, ctx.prog).body):
        if not (isinstance(n, ast.Call) and isinstance(n.func, ast.Attribute) and n.func.attr in ("split", "findall")):
            continue
        if dotted(n.func.value) == "re" and n.args:
            pat = deref_const(ctx, tf, n.args[0])
        else:
            pat = deref_const(ctx, tf, n.func.value)
        if isinstance(pat, ast.Constant) and isinstance(pat.value, str):
            if n.func.attr == "split":
                delim = pat.value
            else:
                seg = pat.value
    return delim, seg


@rule("N5", "the recorded JSON name is tested for presence, never for truth (the empty string is a property name)")
def n5(ctx, res):
    """`source` is None while unset.  `prop.source or name`, `if not self.source` also fire for the JSON name "":
    the property is then re-bound to (or emitted / required under) its Python name `blank`."""
    n_sites = 0
    n_presence = 0
    for f in sorted(ctx.prog.all_funcs(), key=lambda f: f.qualname):
        if not f.module.name.startswith("statham."):
            continue
        for x in walk_own(f.body):
            hit = None
            if isinstance(x, ast.BoolOp) and isinstance(x.op, ast.Or) and isinstance(x.values[0], ast.Attribute) and x.values[0].attr == "source":
                if getattr(x, "_presence", False):
                    n_presence += 1
                    continue  # written as a test against None (see model._PresenceSpelling)
                hit = norm(x)
            elif isinstance(x, (ast.If, ast.IfExp, ast.While)):
                if getattr(x.test, "_presence", False):
                    n_presence += 1
                    continue
                t, _pol = strip_not(x.test)
                if isinstance(t, ast.Attribute) and t.attr == "source":
                    hit = ("if " if _pol else "if not ") + norm(t)
            elif isinstance(x, ast.comprehension):
                for c in x.ifs:
                    t, _pol = strip_not(c)
                    if isinstance(t, ast.Attribute) and t.attr == "source":
                        hit = "if " + norm(c)
            if hit:
                n_sites += 1
                res.violation(f, hit, reason="the JSON name is tested by truth value: the empty property name \"\" is treated as "
                                             "'no name recorded' and replaced by the Python name")
    res.stat("truthiness_tests_on_source", n_sites)
    res.stat("presence_tests_on_source", n_presence)
    res.floor("tests_on_source", n_sites + n_presence, 4)
    bind = ctx.func("_Property.bind")
    sp = bind.self_param()
    stores = [st for st in walk_own(bind.body) if isinstance(st, ast.Assign) and any(norm(t) == f"{sp}.source" for t in st.targets)]
    verdict = None
    for st in stores:
        gs = flat_guards(Parents(bind), st)
        raw = [x.test for x in walk_own(bind.body) if isinstance(x, ast.If) and any(y is st for y in ast.walk(x))]
        if any((cmp_atom(t, pol) or (None,) * 3)[:3] == (f"{sp}.source", "is", "None") for t, pol in gs) \
                or any(getattr(t, "_presence", False) for t in raw):
            verdict = True if verdict is None else verdict
        elif any(isinstance(strip_not(t, pol)[0], ast.Attribute) and strip_not(t, pol)[0].attr == "source" for t, pol in gs):
            verdict = False
    res.judge(verdict if stores else None, bind, "self.source = name only while self.source is None",
              reason="binding fills in the JSON name only when none was given; a given name - also the empty one - is kept")


@rule("N4", "the numeric suffix that disambiguates equal titles disappears when the emitted title is parsed again")
def n4(ctx, res):
    tf = ctx.func("_title_format")
    delim, seg = _title_patterns(ctx, tf)
    dd = ctx.func("_ParseState.dedupe")
    suffix_underscore = has("MV_n + f'_{MV_c}'", dd) or has("f'{MV_n}_{MV_c}'", dd) or has("MV_n + '_' + str(MV_c)", dd)
    res.judge(True if suffix_underscore else None, dd, "object_type.__name__ = name + f'_{count}'",
              reason="the disambiguating suffix is an underscore followed by digits")
    verdict = None
    detail = {"delimiter": delim, "segment": seg}
    if delim is not None and seg is not None:
        pd_, ps_ = rx.single_class(delim), rx.first_class(seg)
        if pd_ is not None and ps_ is not None:
            splits_underscore = pd_("_")
            digit_starts = [d for d in "0123456789" if ps_(d)]
            detail.update({"underscore_is_a_delimiter": splits_underscore, "digits_that_can_start_a_segment": digit_starts})
            verdict = splits_underscore and not digit_starts
    res.judge(verdict, tf, "re.findall('[A-Z][^A-Z]*', word[0].upper() + word[1:])", detail=detail,
              reason="serialize_json emits the suffixed class name (Address_1) as the title; parsing it again must format it "
                     "back to the unsuffixed name (the word '1' yields no segment) so that dedupe assigns the same suffix "
                     "again - otherwise every round trip renames the class (Address_1 -> Address1 -> ...)")


# ---------------------------------------------------------------------- A1
LEAF_ANNOTATIONS = {
    # class: (generic argument text, accepted python types by the type validator, converts)
    "String": ("str", ["str"]), "Boolean": ("bool", ["bool"]), "Integer": ("int", ["int"]),
    "Number": ("float", ["float", "int"]), "Null": ("None", ["type(None)"]),
}


@rule("A1", "leaf annotations agree with what the type validator admits and construct returns")
def a1(ctx, res):
    for cname, (want_generic, accepted) in sorted(LEAF_ANNOTATIONS.items()):
        c = ctx.cls(cname)
        generic = None
        for k in c.mro:
            if k.generic_args:
                generic = norm(k.generic_args[0][1])
                break
        override = None
        g = c.props.get("annotation", {}).get("get")
        if g is not None:
            rets = [norm(x.value) for x in walk_own(g.body) if isinstance(x, ast.Return)]
            override = rets
        ann = override[0].strip("'") if override and len(override) == 1 else generic
        res.check(ann == want_generic, c.qualname, f"annotation of {cname} is {want_generic}", detail={"generic": generic, "override": override},
                  reason="the announced type is the Python type of the JSON type")
        tv = c.props.get("type_validator", {}).get("get") or next((k.props["type_validator"]["get"] for k in c.mro if "type_validator" in k.props), None)
        got = None
        for x in walk_own(tv.body):
            if isinstance(x, ast.Return) and isinstance(x.value, ast.Call) and dotted(x.value.func) == "InstanceOf":
                got = sorted(norm(a) for a in x.value.args)
        res.check(got == accepted, tv, f"InstanceOf({', '.join(accepted)})", detail={"found": got},
                  reason="what the type validator admits belongs to the announced type (an int under float is tolerated)")
    # Element.annotation reads the Generic argument of the class
    ea = ctx.cls("Element").props["annotation"]["get"]
    from .paths import ret_expr as _re_
    from .norm import view as _view
    rets_ea = {norm(_re_(p_)) for p_ in enumerate_paths(_view(ea, ctx.prog).body) if p_.exit == "return" and _re_(p_) is not None}
    ok_ea = has("type(self).__orig_bases__[0].__args__[0]", ea) and "'Any'" in rets_ea and any(r_.endswith(".__name__") for r_ in rets_ea) \
        and len(rets_ea) == 2

    def rec_tv(e):
        ia_ = isinstance_atom(e)
        if ia_ and ia_[1] == ["TypeVar"]:
            return ("TV", ia_[2])
        return None
    tbl_tv, opq_tv = decision_table(_view(ea, ctx.prog).body, ["TV"], rec_tv,
                                    lambda p_: norm(_re_(p_)) if p_.exit == "return" and _re_(p_) is not None else p_.exit)
    untyped = tbl_tv.get((True,), set())
    wrong_untyped = bool(untyped) and any(u_ != "'Any'" and u_ not in ("raise", "fall") for u_ in untyped)
    res.judge(True if ok_ea else (False if wrong_untyped else None), ea,
              "generic argument name, or Any for the un-typed element", reason="annotation is read from the class header")
    om = ctx.cls("ObjectMeta").props["annotation"]["get"]
    res.judge(True if (has("return cls.__name__", om)) else None, om, "return cls.__name__", reason="a model class is annotated by its own name")
    arr = ctx.cls("Array").props["annotation"]["get"]
    from .paths import ret_expr
    from .norm import view
    rets = {norm(ret_expr(p)) for p in enumerate_paths(view(arr, ctx.prog).body) if p.exit == "return" and ret_expr(p) is not None}
    want = {"'List'", "f'List[{self.item_annotations[0]}]'", "f'List[Union[{', '.join(self.item_annotations)}]]'"}
    ok = True if rets == want else (None if not any("List" in r for r in rets) else (False if rets - want and all("List" in r for r in rets) else None))
    res.judge(ok, arr, "List | List[T] | List[Union[...]]", reason="array annotation is built from the item annotations")


# ---------------------------------------------------------------------- A2
@rule("A2", "union and list annotations draw from every contributing element")
def a2(ctx, res):
    from .norm import view, builders
    ca = ctx.cls("CompositionElement").props["annotation"]["get"]
    vca = view(ca, ctx.prog).body
    ANN = ["remove_duplicates((MV_e.annotation for MV_e in self.elements))",
           "remove_duplicates([MV_e.annotation for MV_e in self.elements])"]
    # a surviving local holding the collection
    for b in builders(vca):
        if b.name and norm(b.iter) == "self.elements" and norm(b.elt) == f"{norm(b.target)}.annotation" and not b.guards:
            ANN.append(b.name)

    def is_ann(e):
        return any(match(_parse(ptn), e) is not None for ptn in ANN)

    def rec_c(e):
        t, pol = strip_not(e)
        c = cmp_atom(e)
        if c and c[1] in ("==", "!=") and c[2] == "1" and isinstance(c[3], ast.Call) and dotted(c[3].func) == "len" \
                and c[3].args and is_ann(c[3].args[0]):
            return ("ONE", c[1] == "==")
        if c and c[1] in ("in", "not in") and c[0] == "'Any'" and is_ann(c[4]):
            return ("ANY", c[1] == "in")
        return None

    def lab_c(p):
        if p.exit != "return" or p.exit_node.value is None:
            return p.exit
        e = p.exit_node.value
        if isinstance(e, ast.Subscript) and is_ann(e.value) and norm(e.slice) == "0":
            return "the single annotation"
        if isinstance(e, ast.Constant) and e.value == "Any":
            return "Any"
        t = norm(e)
        if "Union[" in t and any(is_ann(x) for x in ast.walk(e) if isinstance(x, ast.expr)) and "join" in t:
            return "Union of all"
        return "other:" + t[:60]
    # positive evidence of a narrowed union: the annotations are collected from a FILTERED selection of the branches
    narrowed = []
    for b in builders(vca):
        if not (isinstance(b.elt, ast.Attribute) and b.elt.attr == "annotation" and norm(b.elt.value) == norm(b.target)):
            continue
        src = b.iter
        if norm(src) == "self.elements" and b.guards:
            narrowed.append("if " + " and ".join(b.guard_texts()))
        srcs = [src]
        if isinstance(src, ast.Name):
            srcs += [st.value for st in walk_own(vca) if isinstance(st, ast.Assign) and any(norm(t) == src.id for t in st.targets)]
        for e_ in srcs:
            for x in ast.walk(e_):
                if isinstance(x, (ast.ListComp, ast.GeneratorExp)) and len(x.generators) == 1 and x.generators[0].ifs \
                        and norm(x.generators[0].iter) == "self.elements" and norm(x.elt) == norm(x.generators[0].target):
                    narrowed.append(norm(x)[:100])
                if isinstance(x, ast.Call) and dotted(x.func) == "filter" and len(x.args) == 2 and norm(x.args[1]) == "self.elements" \
                        and norm(x.args[0]) != "None":
                    narrowed.append(norm(x)[:100])
    if narrowed:
        res.judge(False, ca, "annotations of ALL self.elements (no branch filtered out)", detail={"selection": narrowed},
                  reason="a branch that can build the result (for example a `not` branch, which returns every value its inner "
                         "schema rejects) is left out of the union: the annotation no longer covers the values held")
    table, opaque = decision_table(vca, ["ONE", "ANY"], rec_c, lab_c)
    want = {(True, True): {"the single annotation"}, (True, False): {"the single annotation"},
            (False, True): {"Any"}, (False, False): {"Union of all"}}
    res.judge(True if table == want else (None if opaque or any("other:" in x for v_ in table.values() for x in v_) else False), ca,
              "annotations of ALL self.elements; one -> itself; any Any -> Any; else Union[...]",
              detail={"table": {str(k): sorted(v_) for k, v_ in table.items()}, "opaque": sorted(opaque)},
              reason="the union covers every branch that can build the result")
    ia = ctx.cls("Array").props["item_annotations"]["get"]
    via = view(ia, ctx.prog).body
    an = None
    for b in builders(via):
        if b.kind == "list" and norm(b.iter) == "self.items" and norm(b.elt) == f"{norm(b.target)}.annotation" and not b.guards:
            an = b.name or (norm(b.node) if isinstance(b.node, ast.ListComp) else None)
    if an is None:
        res.unrecognised(ia, "annotations = [item.annotation for item in self.items]", reason="every tuple member contributes")
        return

    def rec_i(e):
        ia_ = isinstance_atom(e)
        if ia_ and ia_[1] == ["Element"] and ia_[0] in ("self.items", "self.additionalItems"):
            return ("ISEL" if ia_[0] == "self.items" else "ADDEL", ia_[2])
        c = cmp_atom(e)
        if c and c[0] == "self.additionalItems" and c[2] == "True" and c[1] in ("is", "==", "is not", "!="):
            return ("ADDTRUE", c[1] in ("is", "=="))
        if c and c[1] in ("in", "not in") and c[0] == "'Any'" and c[2] == an:
            return ("ANY", c[1] == "in")
        return None

    def lab_i(p):
        if p.exit != "return" or p.exit_node.value is None:
            return p.exit
        e_ = p.exit_node.value
        if isinstance(e_, ast.Name):
            from .paths import ret_expr
            r_ = ret_expr(p)
            if r_ is not None and not (isinstance(r_, ast.ListComp) and norm(r_.generators[0].iter) == "self.items"):
                e_ = r_
        t = norm(e_)
        added = any(isinstance(s_, ast.Expr) and norm(s_.value) == f"{an}.append(self.additionalItems.annotation)" for s_ in p.stmts
                    if isinstance(s_, ast.AST))
        if t == "[self.items.annotation]":
            return "items"
        if t == "['Any']":
            return "Any"
        if t in (f"remove_duplicates({an})", an):
            return "all members + additional" if added else "all members"
        return "other:" + t[:60]
    table, opaque = decision_table(via, ["ISEL", "ADDTRUE", "ADDEL", "ANY"], rec_i, lab_i)
    good = True
    bad = {}
    for (isel, addtrue, addel, any_), labels in table.items():
        if addtrue and addel:
            continue  # True is not an Element
        if isel:
            want_l = {"items"}
        elif addtrue or any_:
            want_l = {"Any"}
        else:
            want_l = {"all members + additional"} if addel else {"all members"}
        if labels != want_l:
            good = False
            bad[str((isel, addtrue, addel, any_))] = sorted(labels)
    res.judge(True if good else (None if opaque or any("other:" in x for v_ in bad.values() for x in v_) else False), ia,
              "items -> [its annotation]; tuple items -> every member + additionalItems (True -> Any)",
              detail={"mismatches": bad, "opaque": sorted(opaque)},
              reason="every element that can validate an item contributes to the list's annotation")


# ---------------------------------------------------------------------- A3
@rule("A3", "the element that builds a composition result is among those its annotation draws from")
def a3(ctx, res):
    al = ctx.cls("AllOf").props.get("annotation", {}).get("get")
    f = ctx.func("_attempt_schemas")
    # allOf returns the FIRST branch's construction
    first_result = any(True for _ in find("if MV_m == 'allOf':\n    MV__\n    return MV_r[0]", f))
    if al is None:
        res.ok("statham/schema/elements/composition.py::AllOf", "AllOf uses the union annotation", reason="the union covers the first branch")
        return
    filters = any(isinstance(n, (ast.GeneratorExp, ast.ListComp)) and n.generators[0].ifs for n in ast.walk(al.node))
    res.check(not (first_result and filters), al, "AllOf.annotation picks the first non-Any, non-Union member",
              reason="_attempt_schemas builds an allOf result from elements[0], but AllOf.annotation skips members annotated "
                     "Any/Union: AllOf(Element(), SomeObject) is annotated SomeObject while the runtime value is the anonymous "
                     "dict built by Element() - the exact shape the parser produces for $ref plus sibling keywords")

    # second clause: among the members it may draw from, AllOf.annotation chooses by POSITION (the first that qualifies) -
    # the runtime value is built by elements[0]; an annotation chosen by rank, membership or a translation table names a
    # member that does not build the value
    bodies = [(al, {"self"})]
    seen_f = {al.qualname}
    reports = []
    unknown = []
    i = 0
    while i < len(bodies) and i < 6:
        fn, tainted = bodies[i]
        i += 1
        tainted = set(tainted)
        changed = True
        stmts = list(walk_own(fn.body))
        while changed:
            changed = False
            for n in stmts:
                tgt = None
                if isinstance(n, ast.Assign) and len(n.targets) == 1 and isinstance(n.targets[0], ast.Name):
                    tgt, val = n.targets[0].id, n.value
                elif isinstance(n, ast.AnnAssign) and isinstance(n.target, ast.Name) and n.value is not None:
                    tgt, val = n.target.id, n.value
                elif isinstance(n, ast.comprehension) and isinstance(n.target, ast.Name):
                    tgt, val = n.target.id, n.iter
                if tgt and tgt not in tainted and any(isinstance(x, ast.Name) and x.id in tainted for x in ast.walk(val)):
                    tainted.add(tgt)
                    changed = True
        tainted.discard("self")

        def is_t(e):
            return any((isinstance(x, ast.Name) and x.id in tainted) or norm(x) == "self.elements" for x in ast.walk(e))
        for n in stmts:
            if isinstance(n, ast.Call):
                d = dotted(n.func)
                if d in ("sorted", "min", "max", "reversed") and n.args and is_t(n.args[0]):
                    reports.append((fn, n, f"{d}() ranks the members"))
                elif isinstance(n.func, ast.Attribute) and n.func.attr == "get" and n.args and is_t(n.args[0]) \
                        and not is_t(n.func.value):
                    reports.append((fn, n, "a member's annotation is translated through a table"))
                elif isinstance(n.func, ast.Name) and any(is_t(a) for a in n.args) and d not in (
                        "next", "iter", "list", "tuple", "len", "bool", "isinstance", "str", "any", "all", "enumerate", "filter", "map"):
                    r = ctx.prog.resolve_in(fn, n.func.id)
                    callee = r[1] if r and r[0] == "func" and hasattr(r[1], "body") else None
                    if callee is None:
                        unknown.append(norm(n)[:60])
                    elif callee.qualname not in seen_f:
                        seen_f.add(callee.qualname)
                        bodies.append((callee, {p_.name for p_, a in zip(callee.params, n.args) if is_t(a)}))
            if isinstance(n, ast.Subscript) and isinstance(n.ctx, ast.Load) and is_t(n.value):
                if isinstance(n.slice, ast.Constant) and n.slice.value == 0:
                    continue
                if isinstance(n.slice, ast.Slice) and n.slice.step is None:
                    continue
                if not is_t(n.slice) or isinstance(n.slice, (ast.Constant, ast.UnaryOp)):
                    reports.append((fn, n, "a member other than the first is indexed"))
            if isinstance(n, ast.Subscript) and isinstance(n.ctx, ast.Load) and not is_t(n.value) and is_t(n.slice) \
                    and isinstance(n.value, ast.Name) and n.value.id.isupper():
                reports.append((fn, n, "a member's annotation is translated through a table"))
            if isinstance(n, ast.Compare) and any(isinstance(o, (ast.In, ast.NotIn)) for o in n.ops) and \
                    any(isinstance(c_, ast.Name) and c_.id in tainted for c_ in n.comparators):
                reports.append((fn, n, "chosen by membership among the members' annotations, not by position"))
    for fn, n, why in reports:
        res.violation(fn, norm(n)[:80], reason=why + ": _attempt_schemas builds an allOf result from elements[0], so an "
                      "annotation taken from a later or stricter member (AllOf(Number(), Integer()) announced as int while the "
                      "value is the float Number() built) is unsound")
    if not reports:
        res.judge(None if unknown else True, al, "members are chosen by position",
                  detail={"functions": sorted(seen_f), "unresolved": unknown},
                  reason="no ranking, membership test or translation of member annotations in AllOf.annotation or its helpers")
