"""Normalisation helpers that make structural rules insensitive to
behaviour-preserving rewrites:

* `nbody(func, prog)`   - function body with single-assignment local aliases
                          substituted and simple private helpers inlined;
* `builders(...)`       - a uniform view of "collection built by iterating":
                          comprehension, explicit loop with append / item
                          store / add, or map/filter pipeline;
* `strings_reaching`    - which constant keys of a loop reach a statement,
                          evaluating the loop body's guards per key;
* `path_signatures`     - set of (events, exit) over all paths, so that
                          try/else vs fall-through, early return vs if/else
                          and similar restructurings give the same set.
"""
import ast
import copy

from .model import Func, norm, dotted, walk_own
from .paths import (enumerate_paths, eval3, strip_not, always_exits, Parents, guards_of, flatten_guard)


# ---------------------------------------------------------------- aliases
def _comp_target_ids(body):
    ids = set()
    for n in walk_own(body):
        if isinstance(n, ast.comprehension):
            for x in ast.walk(n.target):
                ids.add(id(x))
    return ids


def _store_counts(body, params):
    counts = {}
    comp = _comp_target_ids(body)
    for n in walk_own(body):
        if isinstance(n, ast.Name) and isinstance(n.ctx, (ast.Store, ast.Del)) and id(n) not in comp:
            counts[n.id] = counts.get(n.id, 0) + 1
    for p in params:
        counts[p] = counts.get(p, 0) + 1
    return counts


def _is_ref_chain(e):
    """A pure reference expression: name / attribute / constant-or-name subscript chain."""
    while True:
        if isinstance(e, ast.Name):
            return True
        if isinstance(e, ast.Attribute):
            e = e.value
        elif isinstance(e, ast.Subscript) and isinstance(e.slice, (ast.Constant, ast.Name, ast.Attribute)):
            e = e.value
        else:
            return False


def _is_inlinable_rhs(e):
    """Expressions we are willing to substitute for a local name."""
    for x in ast.walk(e):
        if isinstance(x, (ast.Yield, ast.YieldFrom, ast.Await, ast.NamedExpr)):
            return False
    return True


def inline_aliases(body, params, keep=()):
    """Return a deep copy of `body` in which every local that is assigned
    exactly once (at statement level, plain `x = expr`, outside loops) and
    never otherwise stored is replaced by its expression, and the assignment
    removed.  Containers that are mutated later (x.append, x[k] = v) are kept."""
    body = copy.deepcopy(body)
    counts = _store_counts(body, params)
    mutated = set()
    for n in walk_own(body):
        if isinstance(n, ast.Call) and isinstance(n.func, ast.Attribute) and isinstance(n.func.value, ast.Name):
            if n.func.attr in ("append", "extend", "add", "update", "insert", "pop", "remove", "setdefault", "clear", "bind"):
                mutated.add(n.func.value.id)
        if isinstance(n, (ast.Assign, ast.AugAssign, ast.Delete)):
            targets = n.targets if isinstance(n, (ast.Assign, ast.Delete)) else [n.target]
            for t in targets:
                base = t
                while isinstance(base, (ast.Subscript, ast.Attribute)):
                    base = base.value
                if isinstance(base, ast.Name) and base is not t:
                    mutated.add(base.id)
    aliases = {}
    loads = {}
    # names bound by a comprehension are a scope of their own: their loads inside it are not loads of a local
    comp_local = set()
    for n in walk_own(body):
        if isinstance(n, (ast.ListComp, ast.SetComp, ast.DictComp, ast.GeneratorExp)):
            bound = {y.id for g_ in n.generators for y in ast.walk(g_.target) if isinstance(y, ast.Name)}
            for x in ast.walk(n):
                if isinstance(x, ast.Name) and isinstance(x.ctx, ast.Load) and x.id in bound:
                    comp_local.add(id(x))
    for n in walk_own(body):
        if isinstance(n, ast.Name) and isinstance(n.ctx, ast.Load) and id(n) not in comp_local:
            loads[n.id] = loads.get(n.id, 0) + 1
    # names loaded inside lambdas count as well; names used by nested defs are never inlined
    closure_used = set()
    for n in walk_own(body):
        if isinstance(n, ast.Lambda):
            for x in ast.walk(n):
                if isinstance(x, ast.Name) and isinstance(x.ctx, ast.Load):
                    loads[x.id] = loads.get(x.id, 0) + 1
        elif isinstance(n, ast.FunctionDef):
            for x in ast.walk(n):
                if isinstance(x, ast.Name) and isinstance(x.ctx, ast.Load):
                    closure_used.add(x.id)
    keep = set(keep) | closure_used

    # source order of every node, and where each name is stored: an alias whose expression mentions a name that is
    # stored again LATER (e.g. a parameter that is re-bound) must not be moved past that store
    order = {}

    def number(node):
        order[id(node)] = len(order)
        for ch in ast.iter_child_nodes(node):
            if not isinstance(ch, (ast.FunctionDef, ast.ClassDef, ast.expr_context, ast.operator, ast.cmpop, ast.boolop, ast.unaryop)):
                number(ch)
    for st_ in body:
        number(st_)
    store_pos = {}
    for n in walk_own(body):
        if isinstance(n, ast.Name) and isinstance(n.ctx, (ast.Store, ast.Del)) and id(n) in order:
            store_pos.setdefault(n.id, []).append(order[id(n)])
    # in-place mutations of a container count as stores for expressions COMPUTED from it; the mutated object is
    # identified by its access path (`x`, `self._dict`), so that `self._dict[k] = v` does not taint `type(self)`
    mut_pos = {}
    for n in walk_own(body):
        if isinstance(n, ast.Call) and isinstance(n.func, ast.Attribute) \
                and n.func.attr in ("append", "extend", "add", "update", "insert", "pop", "remove", "setdefault", "clear", "discard"):
            mut_pos.setdefault(norm(n.func.value), []).append(order.get(id(n), -1))
        elif isinstance(n, (ast.Assign, ast.AugAssign, ast.Delete)):
            for t in (n.targets if isinstance(n, (ast.Assign, ast.Delete)) else [n.target]):
                if isinstance(t, ast.Subscript):
                    mut_pos.setdefault(norm(t.value), []).append(order.get(id(n), -1))

    # re-binding of an access path (`obj.attr = ...`, `d[k] = ...`) invalidates every alias that reads that path
    path_store_pos = {}
    for n in walk_own(body):
        if isinstance(n, (ast.Assign, ast.AugAssign, ast.AnnAssign, ast.Delete)):
            tgts = n.targets if isinstance(n, (ast.Assign, ast.Delete)) else [n.target]
            for t in tgts:
                if isinstance(t, (ast.Attribute, ast.Subscript)):
                    path_store_pos.setdefault(norm(t), []).append(order.get(id(n), -1))

    last_use = {}
    for n in walk_own(body):
        if isinstance(n, ast.Name) and isinstance(n.ctx, ast.Load) and id(n) in order:
            last_use[n.id] = max(last_use.get(n.id, -1), order[id(n)])

    def rhs_stable(st, val):
        here = max((order.get(id(x), -1) for x in ast.walk(st) if isinstance(x, (ast.stmt, ast.expr))), default=-1)
        tgt_ = st.targets[0] if isinstance(st, ast.Assign) else st.target
        until = last_use.get(tgt_.id, 10 ** 9) if isinstance(tgt_, ast.Name) else 10 ** 9
        return _rhs_stable(val, here, until)

    def _rhs_stable(val, here, until):
        inner_bound = set()
        for x in ast.walk(val):
            if isinstance(x, ast.Lambda):
                inner_bound |= {a.arg for a in x.args.args + x.args.kwonlyargs + x.args.posonlyargs}
            if isinstance(x, ast.comprehension):
                inner_bound |= {y.id for y in ast.walk(x.target) if isinstance(y, ast.Name)}
        for x in ast.walk(val):
            if isinstance(x, ast.Name) and isinstance(x.ctx, ast.Load) and x.id not in inner_bound:
                if any(here < pos <= until for pos in store_pos.get(x.id, [])):
                    return False
        for x in ast.walk(val):
            if isinstance(x, (ast.Attribute, ast.Subscript)) and isinstance(getattr(x, "ctx", None), ast.Load):
                if any(here < pos <= until for pos in path_store_pos.get(norm(x), [])):
                    return False
        if not _is_ref_chain(val):
            for x in ast.walk(val):
                if isinstance(x, (ast.Name, ast.Attribute, ast.Subscript)) and isinstance(getattr(x, "ctx", None), ast.Load):
                    if any(here < pos <= until for pos in mut_pos.get(norm(x), [])):
                        return False
        return True

    def loads_within(name, loop):
        inside = sum(1 for x in ast.walk(loop) if isinstance(x, ast.Name) and isinstance(x.ctx, ast.Load) and x.id == name
                     and id(x) not in comp_local)
        return inside == loads.get(name, 0)

    def collect(stmts, in_loop, in_try=None):
        for st in stmts:
            if isinstance(st, (ast.Assign, ast.AnnAssign)):
                tgt = st.targets[0] if isinstance(st, ast.Assign) and len(st.targets) == 1 else getattr(st, "target", None)
                val = st.value
                if in_loop is not None and not (isinstance(tgt, ast.Name) and loads_within(tgt.id, in_loop)):
                    pass
                elif in_try is not None and not (isinstance(tgt, ast.Name) and loads_within(tgt.id, in_try)):
                    pass  # an expression evaluated under a handler must not be moved out of the protected block
                elif isinstance(tgt, ast.Name) and val is not None and counts.get(tgt.id) == 1 \
                        and (tgt.id not in mutated or _is_ref_chain(val)) \
                        and tgt.id not in keep and _is_inlinable_rhs(val) and loads.get(tgt.id, 0) >= 1 \
                        and rhs_stable(st, val):
                    if not isinstance(val, (ast.List, ast.Dict, ast.Set, ast.ListComp, ast.DictComp, ast.SetComp, ast.GeneratorExp)) \
                            or True:
                        aliases[tgt.id] = (st, val)
            for fld in ("body", "orelse", "finalbody"):
                sub = getattr(st, fld, None)
                if isinstance(sub, list) and sub and isinstance(sub[0], ast.stmt):
                    if isinstance(st, ast.Try) and fld == "body":
                        holder = ast.Module(body=sub, type_ignores=[])
                        collect(sub, in_loop, holder)
                    else:
                        collect(sub, st if isinstance(st, (ast.For, ast.While)) else in_loop, in_try)
            if isinstance(st, ast.Try):
                for h in st.handlers:
                    collect(h.body, in_loop, in_try)

    collect(body, None)
    if not aliases:
        return body

    class Sub(ast.NodeTransformer):
        def __init__(self):
            self.depth = 0
            self.shadow = []

        def _comp(self, node):
            names = set()
            for g in node.generators:
                for x in ast.walk(g.target):
                    if isinstance(x, ast.Name):
                        names.add(x.id)
            self.shadow.append(names)
            try:
                return self.generic_visit(node)
            finally:
                self.shadow.pop()

        visit_ListComp = visit_SetComp = visit_DictComp = visit_GeneratorExp = _comp

        def visit_Name(self, node):
            if any(node.id in sh for sh in self.shadow):
                return node
            if isinstance(node.ctx, ast.Load) and node.id in aliases and self.depth < 8:
                self.depth += 1
                new = self.visit(copy.deepcopy(aliases[node.id][1]))
                self.depth -= 1
                return new
            return node

        def visit_FunctionDef(self, node):
            return node

        def visit_Lambda(self, node):
            self.shadow.append({a.arg for a in node.args.args + node.args.kwonlyargs + node.args.posonlyargs})
            try:
                node.body = self.visit(node.body)
            finally:
                self.shadow.pop()
            return node

    def strip(stmts):
        out = []
        for st in stmts:
            if any(st is a[0] for a in aliases.values()):
                continue
            for fld in ("body", "orelse", "finalbody"):
                sub = getattr(st, fld, None)
                if isinstance(sub, list) and sub and isinstance(sub[0], ast.stmt):
                    new = strip(sub)
                    setattr(st, fld, new if new or fld != "body" else [ast.Pass()])
            if isinstance(st, ast.Try):
                for h in st.handlers:
                    h.body = strip(h.body) or [ast.Pass()]
            out.append(st)
        return out

    body = strip(body)
    sub = Sub()
    body = [sub.visit(st) for st in body]
    for st in body:
        ast.fix_missing_locations(st)
    return body


def _helper_body(h):
    return [x for x in h.body if not (isinstance(x, ast.Expr) and isinstance(x.value, ast.Constant))]


def _dereturn(stmts):
    """Rewrite a procedure body (no `return <value>`) so that it contains no
    bare `return`: `if c: ...; return` + rest  ==>  `if c: ... else: rest`.
    Returns None when that is not possible (return inside a loop / try)."""
    out = []
    for i, st in enumerate(stmts):
        if isinstance(st, ast.Return):
            return out  # anything after is dead
        if isinstance(st, ast.If) and any(isinstance(x, ast.Return) for x in walk_own([st])):
            b = _dereturn(st.body)
            o = _dereturn(st.orelse)
            rest = _dereturn(stmts[i + 1:])
            if b is None or o is None or rest is None:
                return None
            body_exits = always_exits(st.body) and isinstance(_last_simple(st.body), ast.Return)
            else_exits = bool(st.orelse) and always_exits(st.orelse) and isinstance(_last_simple(st.orelse), ast.Return)
            if not body_exits and not else_exits:
                return None  # a return somewhere deeper that does not end the branch
            new = copy.copy(st)
            new.body = (b if body_exits else b + copy.deepcopy(rest)) or [ast.Pass()]
            new.orelse = (o if else_exits else o + copy.deepcopy(rest))
            out.append(new)
            return out
        if any(isinstance(x, ast.Return) for x in walk_own([st])):
            return None
        out.append(st)
    return out


def _last_simple(stmts):
    st = stmts[-1] if stmts else None
    while isinstance(st, ast.If) and st.orelse:
        st = st.orelse[-1]
    return st


_inline_counter = [0]
_suffix_seen = {}


def _suffix(func, h):
    """Suffix for the locals of helper `h` inlined into `func`: distinct for every inlining."""
    key = (id(func), h.name)
    k = _suffix_seen.get(key, 0) + 1
    _suffix_seen[key] = k
    return f"__{h.name}" if k == 1 else f"__{h.name}_{k}"


def _hoistable_calls(st):
    """Call nodes in the header expressions of a statement (evaluated exactly
    once when the statement runs): not inside lambdas / comprehensions /
    conditional sub-expressions."""
    if isinstance(st, (ast.Assign, ast.AnnAssign, ast.AugAssign, ast.Expr, ast.Return)):
        roots = [st.value] if st.value is not None else []
    elif isinstance(st, ast.If):
        roots = [st.test]
    elif isinstance(st, ast.For):
        roots = [st.iter]
    else:
        roots = []
    out = []

    def rec(e, top):
        if isinstance(e, (ast.Lambda, ast.ListComp, ast.SetComp, ast.DictComp, ast.GeneratorExp)):
            return
        if isinstance(e, ast.IfExp):
            rec(e.test, False)
            return
        if isinstance(e, ast.BoolOp):
            rec(e.values[0], False)
            return
        if isinstance(e, ast.Call):
            out.append(e)
        for c in ast.iter_child_nodes(e):
            rec(c, False)
    for r in roots:
        rec(r, True)
    return out


def inline_procedures(body, func, prog, depth=0):
    """Inline calls to private same-module helpers / private methods where
    that is exact:
    * expression statement `helper(args)` whose body returns no value
      (bare early returns are rewritten into if/else);
    * `return helper(args)` with a multi-statement helper that always exits;
    * a statement whose header expression calls a helper of the shape
      `stmts...; return E` (one return, last): the statements are hoisted in
      front (locals renamed) and the call replaced by E.
    Parameters are substituted by the argument expressions."""
    if depth > 3:
        return body
    out = []
    for st in body:
        done = False
        if isinstance(st, ast.Return) and isinstance(st.value, ast.Call):
            h, mapping = _private_callee(st.value, func, prog)
            if h is not None and h is not func:
                hb = _helper_body(h)
                multi = len(hb) > 1 and not any(isinstance(x, (ast.Yield, ast.YieldFrom)) for x in walk_own(hb))
                if multi and always_exits(hb):
                    _inline_counter[0] += 1
                    new = _subst_body(hb, mapping, suffix=_suffix(func, h))
                    out.extend(inline_procedures(new, func, prog, depth + 1))
                    done = True
        if done:
            continue
        if isinstance(st, ast.Expr) and isinstance(st.value, ast.Call):
            h, mapping = _private_callee(st.value, func, prog, allow_public_local=True)
            if h is not None and h is not func:
                hb = _helper_body(h)
                returns_value = any(isinstance(x, ast.Return) and x.value is not None for x in walk_own(hb))
                gen = any(isinstance(x, (ast.Yield, ast.YieldFrom)) for x in walk_own(hb))
                if not returns_value and not gen:
                    hb2 = _dereturn(copy.deepcopy(hb))
                    if hb2 is not None:
                        new = _subst_body(hb2, mapping, suffix=_suffix(func, h))
                        out.extend(inline_procedures(new, func, prog, depth + 1))
                        done = True
        # `for t in _gen(args): BODY` with a private generator that yields at exactly one place:
        # the generator's body with `yield E` replaced by `t = E; BODY`
        if not done and isinstance(st, ast.For) and not st.orelse and isinstance(st.iter, ast.Call):
            h, mapping = _private_callee(st.iter, func, prog)
            if h is not None and h is not func:
                hb = _helper_body(h)
                yields = [x for x in walk_own(hb) if isinstance(x, (ast.Yield, ast.YieldFrom))]
                own_jumps = []

                def scan(stmts):
                    for s_ in stmts:
                        if isinstance(s_, (ast.Break, ast.Continue)):
                            own_jumps.append(s_)
                        elif isinstance(s_, (ast.For, ast.While, ast.FunctionDef, ast.ClassDef)):
                            continue
                        else:
                            for fld in ("body", "orelse", "finalbody"):
                                sub = getattr(s_, fld, None)
                                if isinstance(sub, list) and sub and isinstance(sub[0], ast.stmt):
                                    scan(sub)
                            if isinstance(s_, ast.Try):
                                for hd in s_.handlers:
                                    scan(hd.body)
                scan(st.body)
                if len(yields) == 1 and isinstance(yields[0], ast.Yield) and yields[0].value is not None and not own_jumps \
                        and not any(isinstance(x, ast.Return) and x.value is not None for x in walk_own(hb)):
                    new = _subst_body(hb, mapping, suffix=_suffix(func, h))
                    consumer_target, consumer_body = st.target, st.body

                    def splice(stmts):
                        out_ = []
                        for s_ in stmts:
                            if isinstance(s_, ast.Expr) and isinstance(s_.value, ast.Yield):
                                out_.append(ast.Assign(targets=[copy.deepcopy(consumer_target)], value=s_.value.value, lineno=0, col_offset=0))
                                out_.extend(copy.deepcopy(consumer_body))
                                continue
                            for fld in ("body", "orelse", "finalbody"):
                                sub = getattr(s_, fld, None)
                                if isinstance(sub, list) and sub and isinstance(sub[0], ast.stmt) and not isinstance(s_, (ast.FunctionDef, ast.ClassDef)):
                                    setattr(s_, fld, splice(sub))
                            if isinstance(s_, ast.Try):
                                for hd in s_.handlers:
                                    hd.body = splice(hd.body)
                            out_.append(s_)
                        return out_
                    spliced = splice(new)
                    if not any(isinstance(x, (ast.Yield, ast.YieldFrom)) and x is not None and False for x in ()):
                        for x in spliced:
                            ast.fix_missing_locations(x)
                        out.extend(inline_procedures(spliced, func, prog, depth + 1))
                        done = True
        rounds = 0
        while not done and not isinstance(st, (ast.FunctionDef, ast.ClassDef)) and rounds < 6:
            rounds += 1
            progressed = False
            for call in _hoistable_calls(st):
                h, mapping = _private_callee(call, func, prog)
                if h is None or h is func:
                    continue
                hb = _helper_body(h)
                if len(hb) < 2 or not isinstance(hb[-1], ast.Return) or hb[-1].value is None:
                    # a one-statement helper that merely delegates: replace by its expression and look again
                    if len(hb) == 1 and isinstance(hb[0], ast.Return) and hb[0].value is not None and depth < 3:
                        ret1 = _subst_body([ast.Expr(value=hb[0].value)], mapping)[0].value

                        class R1(ast.NodeTransformer):
                            def visit_Call(self, node):
                                if node is call:
                                    return ret1
                                return self.generic_visit(node)
                        st = R1().visit(st)
                        ast.fix_missing_locations(st)
                        progressed = True
                        break
                    continue
                if any(isinstance(x, (ast.Return, ast.Yield, ast.YieldFrom)) for x in walk_own(hb[:-1])):
                    continue
                # arguments must be pure references (evaluated earlier than in the original)
                _inline_counter[0] += 1
                new = _subst_body(hb[:-1] + [ast.Expr(value=hb[-1].value)], mapping, suffix=_suffix(func, h))
                ret = new[-1].value
                pre = inline_procedures(new[:-1], func, prog, depth + 1)
                out.extend(pre)

                class R(ast.NodeTransformer):
                    def visit_Call(self, node):
                        if node is call:
                            return ret
                        return self.generic_visit(node)
                st = R().visit(st)
                ast.fix_missing_locations(st)
                progressed = True
                break
            if not progressed:
                break
        if not done:
            for fld in ("body", "orelse", "finalbody"):
                sub = getattr(st, fld, None)
                if isinstance(sub, list) and sub and isinstance(sub[0], ast.stmt) and not isinstance(st, (ast.FunctionDef, ast.ClassDef)):
                    setattr(st, fld, inline_procedures(sub, func, prog, depth))
            if isinstance(st, ast.Try):
                for hd in st.handlers:
                    hd.body = inline_procedures(hd.body, func, prog, depth)
            out.append(st)
    return out


_ANCHORS = None


def anchor_names():
    """Identifiers the rule modules mention.  A repository function whose name
    the rules know is part of their vocabulary and is never inlined away;
    helpers the rules have never heard of (typically freshly extracted ones)
    are transparent."""
    global _ANCHORS
    if _ANCHORS is None:
        import os
        import re as _re
        here = os.path.dirname(os.path.abspath(__file__))
        names = set()
        for fn in sorted(os.listdir(here)):
            if fn.startswith("rules_") and fn.endswith(".py"):
                with open(os.path.join(here, fn), encoding="utf8") as fh:
                    names |= set(_re.findall(r"[A-Za-z_][A-Za-z0-9_]*", fh.read()))
        _ANCHORS = names
    return _ANCHORS


def _private_callee(call, func, prog, allow_public_local=False):
    """(helper Func, param->arg mapping) for a call to a private helper of the
    same module / class (name starts with '_', not a dunder), else (None, None)."""
    target = None
    skip = 0
    if isinstance(call.func, ast.Name) and (call.func.id.startswith("_") or allow_public_local
                                            or call.func.id in getattr(func, "nested", {})
                                            or call.func.id not in anchor_names()):
        r = prog.resolve_in(func, call.func.id)
        if r and r[0] == "func" and not r[1].decorators and (r[1].module is func.module or r[1].cls is None):
            target = r[1]
        elif call.func.id in getattr(func, "nested", {}) and not func.nested[call.func.id].decorators:
            target = func.nested[call.func.id]
    elif isinstance(call.func, ast.Attribute) and isinstance(call.func.value, ast.Name) and func.cls is not None \
            and call.func.attr.startswith("_") and not call.func.attr.startswith("__"):
        recv = call.func.value.id
        got = func.cls.lookup(call.func.attr)
        if got and got[0] == "method" and recv in (func.self_param(), func.cls.name, "self", "cls"):
            target = got[1]
            skip = 0 if target.kind == "staticmethod" else 1
    if target is not None and target.name in anchor_names() and target.name not in getattr(func, "nested", {}):
        return None, None
    if target is None or any(isinstance(a, ast.Starred) for a in call.args) or any(k.arg is None for k in call.keywords):
        return None, None
    params = list(target.params)[skip:]
    if len(call.args) > len([p for p in params if p.kind in ("pos", "posonly")]):
        return None, None
    mapping = {}
    for p, a in zip(params, call.args):
        mapping[p.name] = a
    for k in call.keywords:
        mapping[k.arg] = k.value
    for p in params:
        if p.name not in mapping:
            if p.default is None:
                return None, None
            mapping[p.name] = p.default
    if skip:
        mapping[target.params[0].name] = call.func.value
    return target, mapping


def _subst_body(stmts, mapping, suffix=""):
    """Deep copy of stmts with parameter loads replaced by argument
    expressions and the helper's own locals renamed (suffix)."""
    stmts = copy.deepcopy(stmts)
    local_names = set()
    mapping = dict(mapping)
    pre = []
    for n in walk_own(stmts):
        if isinstance(n, ast.Name) and isinstance(n.ctx, (ast.Store, ast.Del)) and n.id in mapping:
            # the helper rebinds one of its parameters: keep it as a (renamed) local initialised from the argument
            arg = mapping.pop(n.id)
            new_name = n.id + (suffix or "__arg")
            pre.append(ast.Assign(targets=[ast.Name(id=new_name, ctx=ast.Store())], value=copy.deepcopy(arg), lineno=0, col_offset=0))
            local_names.add(n.id)
    if not suffix and pre:
        suffix = "__arg"
    for n in walk_own(stmts):
        if isinstance(n, ast.Name) and isinstance(n.ctx, ast.Store) and n.id not in mapping:
            local_names.add(n.id)

    class Sub(ast.NodeTransformer):
        def visit_Name(self, node):
            if node.id in mapping and isinstance(node.ctx, ast.Load):
                return copy.deepcopy(mapping[node.id])
            if node.id in local_names and suffix:
                return ast.copy_location(ast.Name(id=node.id + suffix, ctx=node.ctx), node)
            return node
    out = pre + [Sub().visit(x) for x in stmts]
    for x in out:
        ast.fix_missing_locations(x)
    return out


def inline_single_returns(body, func, prog):
    """Replace calls to private single-`return` helpers by the returned
    expression (parameters substituted), anywhere in the body."""
    class T(ast.NodeTransformer):
        def __init__(self):
            self.depth = 0

        def visit_Call(self, node):
            self.generic_visit(node)
            if self.depth > 3:
                return node
            h, mapping = _private_callee(node, func, prog)
            if h is None or h is func:
                return node
            hb = [x for x in h.body if not (isinstance(x, ast.Expr) and isinstance(x.value, ast.Constant))]
            if len(hb) > 1:
                hb = inline_aliases(hb, [p.name for p in h.params])
            as_expr = None
            if not (len(hb) == 1 and isinstance(hb[0], ast.Return)):
                as_expr = _as_expression(hb)
            if (len(hb) == 1 and isinstance(hb[0], ast.Return) and hb[0].value is not None) or as_expr is not None:
                self.depth += 1
                val = as_expr if as_expr is not None else hb[0].value
                new = _subst_body([ast.Expr(value=val)], mapping)[0].value
                new = self.visit(new)
                self.depth -= 1
                return new
            return node

        def visit_FunctionDef(self, node):
            return node
    out = [T().visit(x) for x in body]
    for x in out:
        ast.fix_missing_locations(x)
    return out


def _subst_expr(expr, mapping):
    """Capture-aware substitution of free names in an expression."""
    class S(ast.NodeTransformer):
        def __init__(self):
            self.shadow = []

        def visit_Name(self, node):
            if isinstance(node.ctx, ast.Load) and node.id in mapping and not any(node.id in sh for sh in self.shadow):
                return copy.deepcopy(mapping[node.id])
            return node

        def visit_Lambda(self, node):
            self.shadow.append({a.arg for a in node.args.args + node.args.kwonlyargs + node.args.posonlyargs})
            try:
                node.body = self.visit(node.body)
            finally:
                self.shadow.pop()
            return node

        def _comp(self, node):
            names = set()
            for g in node.generators:
                for x in ast.walk(g.target):
                    if isinstance(x, ast.Name):
                        names.add(x.id)
            # the first iterable is evaluated outside the comprehension scope
            node.generators[0].iter = self.visit(node.generators[0].iter)
            self.shadow.append(names)
            try:
                for i, g in enumerate(node.generators):
                    if i:
                        g.iter = self.visit(g.iter)
                    g.ifs = [self.visit(c) for c in g.ifs]
                for fld in ("elt", "key", "value"):
                    if hasattr(node, fld):
                        setattr(node, fld, self.visit(getattr(node, fld)))
            finally:
                self.shadow.pop()
            return node
        visit_ListComp = visit_SetComp = visit_DictComp = visit_GeneratorExp = _comp
    return S().visit(copy.deepcopy(expr))


def beta_reduce(body):
    """`(lambda a, b: E)(x, y)`  ==>  E[a:=x, b:=y]  (positional, exact arity)."""
    class B(ast.NodeTransformer):
        def visit_Call(self, node):
            self.generic_visit(node)
            f = node.func
            if isinstance(f, ast.Lambda) and not node.keywords and not any(isinstance(a, ast.Starred) for a in node.args) \
                    and not f.args.vararg and not f.args.kwarg and not f.args.kwonlyargs \
                    and len(f.args.posonlyargs + f.args.args) == len(node.args):
                params = [a.arg for a in f.args.posonlyargs + f.args.args]
                new = _subst_expr(f.body, dict(zip(params, node.args)))
                return self.visit(new)
            return node

        def visit_FunctionDef(self, node):
            return node
    out = [B().visit(st) for st in body]
    for st in out:
        ast.fix_missing_locations(st)
    return out


def _as_expression(stmts):
    """A helper body made only of `if c: return A` ... `return B` (nested) as
    one conditional expression; None when it has any other statement."""
    if not stmts:
        return None
    st = stmts[0]
    if isinstance(st, ast.Return) and st.value is not None:
        return st.value
    if isinstance(st, ast.If):
        a = _as_expression(st.body)
        if a is None:
            return None
        b = _as_expression(st.orelse) if st.orelse else _as_expression(stmts[1:])
        if b is None:
            return None
        if st.orelse and not always_exits(st.orelse):
            return None
        return ast.IfExp(test=st.test, body=a, orelse=b)
    if isinstance(st, ast.For) and not st.orelse and len(stmts) == 2 and isinstance(stmts[1], ast.Return) \
            and isinstance(stmts[1].value, ast.Constant) and stmts[1].value.value is None and isinstance(st.target, ast.Name) \
            and len(st.body) == 1 and isinstance(st.body[0], ast.If) and not st.body[0].orelse \
            and len(st.body[0].body) == 1 and isinstance(st.body[0].body[0], ast.Return) \
            and isinstance(st.body[0].body[0].value, ast.Name) and st.body[0].body[0].value.id == st.target.id:
        # find-first loop: `for x in it: if c: return x` / `return None`  ==  next((x for x in it if c), None)
        gen = ast.GeneratorExp(elt=ast.Name(id=st.target.id, ctx=ast.Load()),
                               generators=[ast.comprehension(target=st.target, iter=st.iter, ifs=[st.body[0].test], is_async=0)])
        return ast.Call(func=ast.Name(id="next", ctx=ast.Load()), args=[gen, ast.Constant(value=None)], keywords=[])
    if isinstance(st, ast.For) and not st.orelse and len(stmts) == 2 and isinstance(stmts[1], ast.Return) \
            and isinstance(stmts[1].value, ast.Constant) and isinstance(stmts[1].value.value, bool) \
            and len(st.body) == 1 and isinstance(st.body[0], ast.If) and not st.body[0].orelse \
            and len(st.body[0].body) == 1 and isinstance(st.body[0].body[0], ast.Return) \
            and isinstance(st.body[0].body[0].value, ast.Constant) and st.body[0].body[0].value.value is (not stmts[1].value.value):
        # search loop: `for x in it: if c: return True` / `return False`  ==  any(c for x in it)   (and the all() dual)
        found = st.body[0].body[0].value.value
        test = st.body[0].test if found else ast.UnaryOp(op=ast.Not(), operand=st.body[0].test)
        gen = ast.GeneratorExp(elt=test, generators=[ast.comprehension(target=st.target, iter=st.iter, ifs=[], is_async=0)])
        return ast.Call(func=ast.Name(id="any" if found else "all", ctx=ast.Load()), args=[gen], keywords=[])
    return None


def split_tuple_assigns(body):
    """`a, b = x, y`  ==>  `a = x; b = y` when no target name occurs in a later value (so that the simultaneous
    assignment and the sequence mean the same)."""
    class T(ast.NodeTransformer):
        def visit_FunctionDef(self, node):
            return node

        def visit_Assign(self, node):
            if len(node.targets) == 1 and isinstance(node.targets[0], (ast.Tuple, ast.List)) and isinstance(node.value, (ast.Tuple, ast.List)) \
                    and len(node.targets[0].elts) == len(node.value.elts) \
                    and not any(isinstance(x, ast.Starred) for x in node.targets[0].elts + node.value.elts) \
                    and all(isinstance(t, ast.Name) for t in node.targets[0].elts):
                names = [t.id for t in node.targets[0].elts]
                for i, v in enumerate(node.value.elts):
                    used = {x.id for x in ast.walk(v) if isinstance(x, ast.Name)}
                    if used & set(names[:i]):
                        return node
                return [ast.copy_location(ast.Assign(targets=[t], value=v), node) for t, v in zip(node.targets[0].elts, node.value.elts)]
            return node
    out = []
    for st in body:
        r = T().visit(st)
        out.extend(r if isinstance(r, list) else [r])
    for st in out:
        ast.fix_missing_locations(st)
    return out


def text_resolver(body, keep=()):
    """R(expr) -> normalised text of expr with single-assignment locals of `body` read as what they stand for
    (for comparing texts only: the substitution ignores evaluation order)."""
    env = {}
    for st in walk_own(body):
        if isinstance(st, (ast.Assign, ast.AnnAssign)) and st.value is not None:
            tg = st.targets[0] if isinstance(st, ast.Assign) and len(st.targets) == 1 else getattr(st, "target", None)
            if isinstance(tg, ast.Name):
                env[tg.id] = st.value if tg.id not in env else None
    env = {k: v for k, v in env.items() if v is not None and k not in keep}

    def R(e):
        for _ in range(3):
            e = _subst_expr(e, env)
        return norm(e)
    return R


_nbody_cache = {}


def nbody(func, prog=None, keep=()):
    """Normalised body (deep copy) of a function: docstring dropped, helper
    procedures inlined, aliases substituted."""
    key = tuple(sorted(keep))
    cache = func.__dict__.setdefault("_nbody_cache", {})
    if key in cache:
        return cache[key]
    body = [st for st in func.body if not (isinstance(st, ast.Expr) and isinstance(st.value, ast.Constant)
                                           and isinstance(st.value.value, str))]
    body = copy.deepcopy(body)
    for k_ in [k_ for k_ in _suffix_seen if k_[0] == id(func)]:
        del _suffix_seen[k_]
    if prog is not None:
        body = inline_procedures(body, func, prog)
        body = inline_single_returns(body, func, prog)
    body = split_tuple_assigns(body)
    body = inline_aliases(body, [p.name for p in func.params], keep=keep)
    body = beta_reduce(body)
    cache[key] = body
    return body


class View:
    """A function-like view (body + params) so that path / pattern helpers
    that only need `.body` work on a normalised body."""

    def __init__(self, func, body):
        self.func = func
        self.body = body
        self.params = func.params
        self.cls = func.cls
        self.module = func.module
        self.short = func.short
        self.qualname = func.qualname


def view(func, prog=None, keep=()):
    return View(func, nbody(func, prog, keep))


# ---------------------------------------------------------------- builders
class Builder:
    """A collection built by iterating: `kind` list/dict/set/gen, the iterated
    expression, the loop target, the guards [(test, polarity)] under which an
    element is produced, and the element expression(s)."""
    __slots__ = ("kind", "name", "iter", "target", "guards", "elt", "key", "node", "returned")

    def __init__(self, kind, name, it, target, guards, elt, key=None, node=None, returned=False):
        self.kind = kind
        self.name = name
        self.iter = it
        self.target = target
        self.guards = guards
        self.elt = elt
        self.key = key
        self.node = node
        self.returned = returned

    def guard_texts(self):
        """Sorted texts of the atomic guards, comparisons in normal form (negation pushed into the operator)."""
        from .paths import cmp_atom
        out = []
        for t, pol in self.guards:
            for t2, p2 in flatten_guard(t, pol):
                c = cmp_atom(t2, p2)
                if c is not None:
                    out.append(f"{c[0]} {c[1]} {c[2]}")
                    continue
                t3, p3 = strip_not(t2, p2)
                out.append(("" if p3 else "not ") + norm(t3))
        return sorted(out)

    def __repr__(self):
        return f"<Builder {self.kind} {self.name} for {norm(self.target)} in {norm(self.iter)} if {self.guard_texts()} -> {norm(self.elt)}>"


def builders(body):
    """All builders found in a statement list (comprehensions anywhere, and
    explicit accumulate-in-a-loop forms)."""
    out = []
    parents = Parents(body)
    for n in walk_own(body):
        if isinstance(n, (ast.ListComp, ast.SetComp, ast.GeneratorExp, ast.DictComp)) and len(n.generators) == 1:
            g = n.generators[0]
            kind = {"ListComp": "list", "SetComp": "set", "GeneratorExp": "gen", "DictComp": "dict"}[type(n).__name__]
            guards = [(c, True) for c in g.ifs]
            par = parents.parent.get(id(n))
            name = None
            returned = False
            cur, p = n, par
            # look through list(...)/sorted(...)/set(...) wrappers
            while isinstance(p, ast.Call) and dotted(p.func) in ("list", "tuple", "sorted", "set", "frozenset", "dict", "remove_duplicates") \
                    and p.args and p.args[0] is cur:
                cur, p = p, parents.parent.get(id(p))
            if isinstance(p, (ast.Assign, ast.AnnAssign)):
                t = p.targets[0] if isinstance(p, ast.Assign) else p.target
                if isinstance(t, ast.Name):
                    name = t.id
            if isinstance(p, ast.Return):
                returned = True
            if kind == "dict":
                out.append(Builder(kind, name, g.iter, g.target, guards, n.value, key=n.key, node=n, returned=returned))
            else:
                out.append(Builder(kind, name, g.iter, g.target, guards, n.elt, node=n, returned=returned))
        elif isinstance(n, ast.Call) and dotted(n.func) in ("map", "filter") and len(n.args) == 2:
            pass
    # accumulate-in-a-loop
    for n in walk_own(body):
        if not isinstance(n, ast.For):
            continue
        P = Parents(n.body)
        for x in walk_own(n.body):
            acc = None
            if isinstance(x, ast.Call) and isinstance(x.func, ast.Attribute) and isinstance(x.func.value, ast.Name) \
                    and x.func.attr in ("append", "add") and len(x.args) == 1:
                acc = (x.func.value.id, "list" if x.func.attr == "append" else "set", x.args[0], None)
            elif isinstance(x, ast.Assign) and len(x.targets) == 1 and isinstance(x.targets[0], ast.Subscript) \
                    and isinstance(x.targets[0].value, ast.Name):
                acc = (x.targets[0].value.id, "dict", x.value, x.targets[0].slice)
            elif isinstance(x, (ast.Yield,)) and x.value is not None:
                acc = (None, "gen", x.value, None)
            if acc is None:
                continue
            guards = guards_of(P, x)
            # inner loops make it a nested builder: skip
            nested = False
            for par, fld, child in P.chain(x):
                if isinstance(par, (ast.For, ast.While)):
                    nested = True
            if nested:
                continue
            out.append(Builder(acc[1], acc[0], n.iter, n.target, guards, acc[2], key=acc[3], node=n))
    # iterating an identity filter `[x for x in XS if c(x)]` is iterating XS under the guard c
    for b in out:
        it = b.iter
        for _ in range(2):
            if isinstance(it, (ast.ListComp, ast.GeneratorExp)) and len(it.generators) == 1 and isinstance(it.generators[0].target, ast.Name) \
                    and norm(it.elt) == it.generators[0].target.id and isinstance(b.target, ast.Name):
                inner_var = it.generators[0].target.id
                renamed = [_subst_expr(c, {inner_var: ast.Name(id=b.target.id, ctx=ast.Load())}) for c in it.generators[0].ifs]
                b.guards = [(c, True) for c in renamed] + list(b.guards)
                it = it.generators[0].iter
                b.iter = it
    return out


def find_builder(body, name=None, returned=None, iter_pat=None, kind=None):
    from .pat import match, _parse
    res = []
    for b in builders(body):
        if name is not None and b.name != name:
            continue
        if returned is not None and b.returned != returned:
            continue
        if kind is not None and b.kind != kind:
            continue
        if iter_pat is not None and match(_parse(iter_pat), b.iter) is None:
            continue
        res.append(b)
    return res


# -------------------------------------------------------- loop key analysis
def strings_reaching(loop, stmt, candidates):
    """Which of the constant strings iterated by `loop` (a For whose target is
    a plain name) reach `stmt` inside its body, given the body's guards
    (`if key == "not": continue`, `if key != "not": ...`)?"""
    if not isinstance(loop.target, ast.Name):
        return None
    var = loop.target.id
    P = Parents(loop.body)
    gs = guards_of(P, stmt)
    out = set()
    for s in candidates:
        def atom_eval(e, s=s):
            if isinstance(e, ast.Compare) and len(e.ops) == 1:
                l, r = e.left, e.comparators[0]
                if isinstance(l, ast.Name) and l.id == var:
                    pass
                elif isinstance(r, ast.Name) and r.id == var and isinstance(e.ops[0], (ast.Eq, ast.NotEq)):
                    l, r = r, l
                else:
                    return None
                op = e.ops[0]
                if isinstance(r, ast.Constant):
                    if isinstance(op, ast.Eq):
                        return s == r.value
                    if isinstance(op, ast.NotEq):
                        return s != r.value
                if isinstance(r, (ast.Tuple, ast.List, ast.Set)) and all(isinstance(x, ast.Constant) for x in r.elts):
                    vals = [x.value for x in r.elts]
                    if isinstance(op, ast.In):
                        return s in vals
                    if isinstance(op, ast.NotIn):
                        return s not in vals
            return None
        ok = True
        for t, pol in gs:
            v = eval3(t, atom_eval)
            if v is None:
                continue  # guard not about the key: either way
            if v != pol:
                ok = False
        if ok:
            out.add(s)
    return out


# ----------------------------------------------------------- path signatures
def path_signatures(body, event):
    """Set of (tuple(events), exit_label) over all paths of `body`.
    event(item) -> label | None, where item is a statement on the path or a
    marker tuple ("handler", ExceptHandler) / ("loop-enter", For) ..."""
    sigs = set()
    for p in enumerate_paths(body):
        evs = []
        for s in p.stmts:
            lab = event(s)
            if lab is not None:
                evs.append(lab)
        ex = p.exit
        sigs.add((tuple(evs), ex))
    return sigs
