"""E6 - exception-escape analysis.

Esc(f) = set of (exception name, origin) that may leave f, where an origin is
an explicit `raise` or a *partial operation* from the catalogue below that is
not discharged by one of the recognised guard idioms.  Handlers filter what
passes, using the repo's exception hierarchy (from the AST) and the builtin
hierarchy (from the analysing interpreter).

TypeError / AttributeError / RecursionError / MemoryError arising implicitly
are not tracked (see DESIGN section 2); explicit `raise TypeError` is.
"""
import ast
import builtins

from .model import Func, dotted, walk_own, norm, AnalysisError
from .paths import Parents, guards_of, flatten_guard, strip_not, cmp_atom, isinstance_atom

# ---------------------------------------------------------------- catalogue
# external callables: name -> exceptions (beyond TypeError) they may raise
EXT_RAISES = {
    "float": ("OverflowError", "ValueError"),
    "int": ("OverflowError", "ValueError"),
    "complex": ("ValueError",),
    "divmod": ("ZeroDivisionError", "OverflowError"),
    "pow": ("ZeroDivisionError", "OverflowError"),
    "round": ("OverflowError", "ValueError"),
    "chr": ("ValueError", "OverflowError"),
    "ord": (),
    "UUID": ("ValueError",),
    "uuid.UUID": ("ValueError",),
    "parse_datetime": ("dateutil.ParserError", "OverflowError"),
    "dateutil.parser.parse": ("dateutil.ParserError", "OverflowError"),
    "Fraction": ("ValueError", "OverflowError", "ZeroDivisionError"),
    "fractions.Fraction": ("ValueError", "OverflowError", "ZeroDivisionError"),
    "Decimal": ("decimal.InvalidOperation", "ValueError"),
    "decimal.Decimal": ("decimal.InvalidOperation", "ValueError"),
    "math.sqrt": ("ValueError",), "math.log": ("ValueError",), "math.floor": ("OverflowError", "ValueError"),
    "math.ceil": ("OverflowError", "ValueError"), "math.trunc": ("OverflowError", "ValueError"),
    "math.fmod": ("ValueError",), "math.isfinite": (), "math.isinf": (), "math.isnan": (), "math.gcd": (),
    "math.isclose": (), "math.copysign": (), "math.fabs": (), "math.remainder": ("ValueError",),
    "urlsplit": ("ValueError",), "urlparse": ("ValueError",), "urllib.parse.urlsplit": ("ValueError",),
    "urllib.parse.urlparse": ("ValueError",), "parse.urlsplit": ("ValueError",), "parse.urlparse": ("ValueError",),
    "urllib.parse.unquote": (), "unquote": (), "urllib.parse.quote": (), "quote": (),
    "ipaddress.ip_network": ("ValueError",), "ip_address": ("ValueError",), "ip_network": ("ValueError",),
    "warnings.catch_warnings": (), "catch_warnings": (), "warnings.simplefilter": (), "simplefilter": (),
    "warnings.filterwarnings": (), "filterwarnings": (), "warnings.resetwarnings": (),
    "json.loads": ("ValueError",), "json.dumps": ("ValueError", "OverflowError", "TypeError"),
    "loads": ("ValueError",), "dumps": ("ValueError", "OverflowError", "TypeError"),
    "open": ("OSError",), "materialize": ("Exception",), "RefDict.from_uri": ("Exception",),
    "URI.from_string": ("Exception",),
    "datetime.fromisoformat": ("ValueError",), "datetime.datetime.fromisoformat": ("ValueError",),
    "datetime.strptime": ("ValueError",), "datetime.datetime.strptime": ("ValueError",),
    "ipaddress.ip_address": ("ValueError",), "ast.literal_eval": ("ValueError", "SyntaxError"),
    "literal_eval": ("ValueError", "SyntaxError"), "eval": ("Exception",), "exec": ("Exception",),
    "compile": ("SyntaxError", "ValueError"), "__import__": ("ImportError",),
    "importlib.import_module": ("ImportError",), "bytes": ("ValueError",), "bytearray": ("ValueError",),
    "min": ("ValueError",), "max": ("ValueError",), "range": ("ValueError",), "slice": (),
    "operator.truediv": ("ZeroDivisionError", "OverflowError"), "operator.mod": ("ZeroDivisionError",),
    "operator.floordiv": ("ZeroDivisionError",), "operator.getitem": ("KeyError", "IndexError"),
    "op.truediv": ("ZeroDivisionError", "OverflowError"), "op.mod": ("ZeroDivisionError",),
    "op.getitem": ("KeyError", "IndexError"),
    "sys.exit": ("SystemExit",), "exit": ("SystemExit",),
    "unicodedata.lookup": ("KeyError",), "unicodedata.normalize": ("ValueError",),
    "base64.b64decode": ("ValueError",), "binascii.unhexlify": ("ValueError",),
}
# externals that are total apart from TypeError (or re.error, excluded by assumption)
EXT_TOTAL = {
    "len", "isinstance", "issubclass", "repr", "str", "bool", "list", "dict", "set", "frozenset", "tuple",
    "sorted", "zip", "map", "filter", "enumerate", "reversed", "iter", "any", "all", "sum", "abs", "hash", "id",
    "callable", "hasattr", "type", "super", "object", "print", "vars", "dir", "format", "cast", "partial",
    "functools.partial", "wraps", "functools.wraps", "setattr", "property", "staticmethod", "classmethod",
    "object.__new__", "type.__new__", "super().__new__", "super().__init__", "super().__setitem__",
    "super().__init_subclass__", "defaultdict", "collections.defaultdict", "OrderedDict", "collections.OrderedDict",
    "chain", "itertools.chain", "chain.from_iterable", "itertools.chain.from_iterable", "itertools.count",
    "inspect.signature", "signature", "inspect.isclass", "warnings.warn", "getLogger", "TypeVar",
    "re.search", "re.match", "re.fullmatch", "re.split", "re.findall", "re.sub", "re.compile", "re.finditer",
    "re.escape", "string.capwords", "keyword.iskeyword", "iskeyword",
    "operator.ne", "operator.eq", "op.ne", "op.eq", "operator.itemgetter", "operator.attrgetter",
    "copy.copy", "copy.deepcopy", "copy", "deepcopy", "unicodedata.category", "unicodedata.east_asian_width",
    "ArgumentParser", "path.isdir", "path.basename", "path.join", "contextmanager", "NamedTuple",
    "set.union", "set.intersection", "frozenset.union", "dict.fromkeys", "str.join", "Counter",
    "collections.Counter", "textwrap.dedent", "textwrap.indent", "io.StringIO", "StringIO", "object.__setattr__",
    "math.isfinite", "math.isinf", "math.isnan", "Literal",
}
# methods on non-repo receivers: name -> exceptions
METHOD_RAISES = {
    "index": ("ValueError",), "remove": ("ValueError", "KeyError"), "popitem": ("KeyError",),
    "encode": ("UnicodeError",), "decode": ("UnicodeError",), "format_map": ("KeyError", "ValueError"),
    "as_integer_ratio": ("OverflowError", "ValueError"), "to_bytes": ("OverflowError",),
    "group": ("IndexError",), "__getitem__": ("KeyError", "IndexError"),
    "bit_length": (), "is_integer": (), "hex": (), "conjugate": (),
}
METHOD_TOTAL = {
    "append", "extend", "insert", "update", "add", "clear", "setdefault", "sort", "reverse", "discard", "items",
    "values", "keys", "get", "copy", "count", "join", "lower", "upper", "replace", "strip", "lstrip", "rstrip",
    "title", "split", "startswith", "endswith", "isalnum", "isdigit", "union", "intersection", "difference",
    "symmetric_difference", "issubset", "issuperset", "isdisjoint", "isidentifier", "isprintable", "isnumeric",
    "isalpha", "isspace", "islower", "isupper", "capitalize", "casefold", "splitlines", "partition", "rpartition",
    "rsplit", "find", "rfind", "zfill", "center", "ljust", "rjust", "expandtabs", "swapcase", "translate",
    "mro", "__subclasses__", "parameters", "write", "add_argument", "add_argument_group", "parse_args",
    "setLevel", "info", "debug", "warning", "error", "from_iterable", "most_common", "elements", "total",
    "back", "strip", "removeprefix", "removesuffix", "isdecimal", "isascii", "difference_update",
    "intersection_update", "symmetric_difference_update", "__contains__", "__eq__", "__ne__", "__hash__",
    "__repr__", "__str__", "__len__", "__iter__", "__init__", "__setitem__", "__init_subclass__", "__new__",
    "register", "with_traceback", "bit_length", "is_integer", "hex", "conjugate", "real", "imag",
    "search", "match", "fullmatch", "findall", "finditer", "sub", "groups", "groupdict", "start", "end", "span",
    "appendleft", "extendleft", "rotate", "move_to_end", "fromkeys",
}
EXTERNAL_HIERARCHY = {
    "dateutil.ParserError": "ValueError",
    "decimal.InvalidOperation": "ArithmeticError",
    "re.error": "Exception",
    "UnicodeError": "ValueError",
}


class Origin:
    __slots__ = ("func", "node", "kind", "text")

    def __init__(self, func, node, kind, text):
        self.func = func
        self.node = node
        self.kind = kind  # raise | partial
        self.text = text

    def key(self):
        return (self.func.qualname, self.text)

    def __repr__(self):
        return f"<{self.kind} {self.func.short} :: {self.text}>"


class Escape:
    def __init__(self, ctx):
        self.ctx = ctx
        self.prog = ctx.prog
        self.inf = ctx.inf
        self.funcs = self.prog.all_funcs()
        self.esc = {f: {} for f in self.funcs}  # (exc, origin) -> via (site or None)
        self._origins = {}
        self._parents = {}
        self._site_index = {}
        self.discharged = []  # (func, node, what, reason)
        self.unknown_ext = []  # (func, node, name)
        self._disch_seen = set()
        self.repo_exc = {c.name: c for c in self.prog.classes.values()
                         if "Exception" in c.ext_bases() or "BaseException" in c.ext_bases()}
        self.rounds = 0
        self._solve()

    # ------------------------------------------------------------ hierarchy
    def is_sub(self, a, b):
        if a == b:
            return True
        if b in ("BaseException",):
            return True
        if a in self.repo_exc:
            c = self.repo_exc[a]
            if b in [k.name for k in c.mro]:
                return True
            return any(self.is_sub(x, b) for x in c.ext_bases() if x != a)
        if a in EXTERNAL_HIERARCHY:
            return self.is_sub(EXTERNAL_HIERARCHY[a], b)
        A = getattr(builtins, a, None)
        B = getattr(builtins, b, None)
        if isinstance(A, type) and isinstance(B, type):
            return issubclass(A, B)
        if b == "Exception" and a not in ("KeyboardInterrupt", "SystemExit", "GeneratorExit"):
            return True
        return False

    # --------------------------------------------------------------- solve
    def _solve(self):
        for f in self.funcs:
            self._parents[f] = Parents(f)
            idx = {}
            sites, ext = self.inf.sites(f)
            for s in sites:
                idx.setdefault(id(s.node), ([], []))[0].append(s)
            for x in ext:
                idx.setdefault(id(x.node), ([], []))[1].append(x)
            self._site_index[f] = idx
        for rnd in range(60):
            self.rounds += 1
            changed = False
            for f in self.funcs:
                new = self._esc_stmts(f.body, f, None)
                cur = self.esc[f]
                for k, via in new.items():
                    if k not in cur:
                        cur[k] = via
                        changed = True
            if not changed:
                return
        raise AnalysisError("exception-escape analysis did not reach a fixed point")

    def _origin(self, f, node, kind, text):
        key = (f.qualname, id(node), text)
        if key not in self._origins:
            self._origins[key] = Origin(f, node, kind, text)
        return self._origins[key]

    # ----------------------------------------------------- exception names
    def exc_names(self, e, f):
        """Exception class names denoted by an expression (a class, a tuple
        of classes, a call constructing one, a factory classmethod call)."""
        if e is None:
            return []
        if isinstance(e, ast.Tuple):
            out = []
            for x in e.elts:
                out += self.exc_names(x, f)
            return out
        if isinstance(e, ast.Call):
            fn = e.func
            # X.factory(...) -> X when factory is a classmethod returning cls(...)
            if isinstance(fn, ast.Attribute):
                base = self.exc_names(fn.value, f)
                if base:
                    return base
            return self.exc_names(fn, f)
        d = dotted(e)
        if d is None:
            return ["Exception"]
        if isinstance(e, ast.Name):
            r = self.prog.resolve_in(f, e.id)
            if r and r[0] == "local":
                owner = r[1]
                out = []
                for b in self.inf.bindings(owner).get(e.id, []):
                    if b[0] == "param":
                        for scope, a in self.inf.param_args(owner, b[1].name):
                            if isinstance(a, ast.AST):
                                out += self.exc_names(a, scope)
                        if not self.inf.param_args(owner, b[1].name) and b[1].name in ("cls",):
                            pass
                    elif b[0] == "assign":
                        out += self.exc_names(b[1], owner)
                    elif b[0] == "exc":
                        out += self.exc_names(b[1], owner)
                if e.id == "cls" and isinstance(f, Func) and f.cls is not None and f.cls.name in self.repo_exc:
                    return [f.cls.name]
                return out or ["Exception"]
            if r and r[0] == "class":
                return [r[1].name]
            if r and r[0] == "builtin":
                return [r[1]]
            if r and r[0] == "ext":
                last = r[1].split(".")[-1]
                if last == "ParserError":
                    return ["dateutil.ParserError"]
                if r[1] in ("re.error",):
                    return ["re.error"]
                return [last]
            return [e.id]
        # dotted attribute: module.Class or Class.attr
        r = self.prog.resolve_in(f, d.split(".")[0]) if isinstance(f, Func) else None
        last = d.split(".")[-1]
        if last in self.repo_exc:
            return [last]
        if d == "re.error":
            return ["re.error"]
        return [last]

    # ------------------------------------------------------------ statements
    def _merge(self, dst, src):
        for k, v in src.items():
            if k not in dst:
                dst[k] = v

    def _esc_stmts(self, stmts, f, hctx):
        out = {}
        for st in stmts:
            self._merge(out, self._esc_stmt(st, f, hctx))
        return out

    def _esc_stmt(self, st, f, hctx):
        out = {}
        if isinstance(st, (ast.FunctionDef, ast.AsyncFunctionDef, ast.ClassDef)):
            for d in st.decorator_list:
                self._merge(out, self._events(d, f))
            return out
        if isinstance(st, ast.Try):
            body = self._esc_stmts(st.body, f, hctx)
            caught = {id(h): {} for h in st.handlers}
            for (exc, o), via in body.items():
                hit = None
                for h in st.handlers:
                    if h.type is None:
                        hit = h
                        break
                    names = self.exc_names(h.type, f)
                    if any(self.is_sub(exc, n) for n in names):
                        hit = h
                        break
                if hit is None:
                    out[(exc, o)] = via
                else:
                    caught[id(hit)][(exc, o)] = via
            self._merge(out, self._esc_stmts(st.orelse, f, hctx))
            for h in st.handlers:
                self._merge(out, self._esc_stmts(h.body, f, (h, caught[id(h)])))
            self._merge(out, self._esc_stmts(st.finalbody, f, hctx))
            return out
        if isinstance(st, ast.Raise):
            if st.exc is None:
                if hctx is not None:
                    self._merge(out, hctx[1])
                    # also: whatever the handler type denotes that we cannot see precisely
                return out
            self._merge(out, self._events(st.exc, f))
            if st.cause is not None:
                self._merge(out, self._events(st.cause, f))
            # re-raise of the handler variable
            if hctx is not None and isinstance(st.exc, ast.Name) and hctx[0].name == st.exc.id:
                self._merge(out, hctx[1])
                return out
            names = self.exc_names(st.exc, f)
            o = self._origin(f, st, "raise", norm(st))
            for n in names:
                out.setdefault((n, o), None)
            return out
        if isinstance(st, ast.Assert):
            self._merge(out, self._events(st.test, f))
            o = self._origin(f, st, "raise", norm(st))
            out.setdefault(("AssertionError", o), None)
            return out
        if isinstance(st, (ast.If, ast.While)):
            self._merge(out, self._events(st.test, f))
            self._merge(out, self._esc_stmts(st.body, f, hctx))
            self._merge(out, self._esc_stmts(st.orelse, f, hctx))
            return out
        if isinstance(st, (ast.For, ast.AsyncFor)):
            self._merge(out, self._events(st.iter, f))
            self._merge(out, self._events_node(st, f))
            self._merge(out, self._esc_stmts(st.body, f, hctx))
            self._merge(out, self._esc_stmts(st.orelse, f, hctx))
            return out
        if isinstance(st, (ast.With, ast.AsyncWith)):
            for it in st.items:
                self._merge(out, self._events(it.context_expr, f))
            self._merge(out, self._esc_stmts(st.body, f, hctx))
            return out
        # simple statement: events of all contained expressions + statement-level sites
        self._merge(out, self._events_node(st, f))
        for child in ast.iter_child_nodes(st):
            if isinstance(child, ast.expr):
                self._merge(out, self._events(child, f))
        return out

    # ----------------------------------------------------------- expressions
    def _events(self, expr, f):
        out = {}
        stack = [expr]
        while stack:
            n = stack.pop()
            if isinstance(n, ast.Lambda):
                continue
            self._merge(out, self._events_node(n, f))
            for ch in ast.iter_child_nodes(n):
                stack.append(ch)
        return out

    def _events_node(self, n, f):
        out = {}
        sites, exts = self._site_index[f].get(id(n), ([], []))
        for s in sites:
            for (exc, o), _ in self.esc[s.callee].items():
                out.setdefault((exc, o), s)
        for x in exts:
            for exc, what in self._ext_raises(x, f):
                o = self._origin(f, x.node, "partial", what)
                out.setdefault((exc, o), None)
        if isinstance(n, ast.Subscript) and isinstance(n.ctx, ast.Load) and not isinstance(n.slice, ast.Slice):
            repo_getitem = [s for s in sites if s.kind == "op" and s.callee.name == "__getitem__" and s.edge == "resolved"]
            if repo_getitem:
                pass  # a repository __getitem__: its own escapes are propagated through the site
            elif not self._is_annotation_subscript(n, f):
                reason = self._subscript_safe(n, f)
                if reason:
                    self._note_discharge(f, n, "subscript", reason)
                else:
                    o = self._origin(f, n, "partial", norm(n))
                    for exc in self._subscript_excs(n, f):
                        out.setdefault((exc, o), None)
        elif isinstance(n, ast.Delete):
            for t in n.targets:
                if isinstance(t, ast.Subscript):
                    reason = self._subscript_safe(t, f)
                    if reason:
                        self._note_discharge(f, t, "del", reason)
                    else:
                        o = self._origin(f, t, "partial", f"del {norm(t)}")
                        out.setdefault(("KeyError", o), None)
                        out.setdefault(("IndexError", o), None)
        elif isinstance(n, ast.BinOp) and isinstance(n.op, (ast.Div, ast.FloorDiv, ast.Mod, ast.Pow)):
            if not self._is_string_format(n, f):
                o = self._origin(f, n, "partial", norm(n))
                excs = ["ZeroDivisionError", "OverflowError"]
                if isinstance(n.op, (ast.Mod, ast.FloorDiv)) and self._divisor_not_float(n, f):
                    excs = ["ZeroDivisionError"]
                    self._note_discharge(f, n, "overflow", "divisor is not a float on this path: int%int and float%int cannot overflow")
                for exc in excs:
                    out.setdefault((exc, o), None)
        elif isinstance(n, ast.FormattedValue) or (isinstance(n, ast.Call) and dotted(n.func) in ("repr", "str", "ascii", "format")
                                                    and len(n.args) >= 1):
            # rendering a caller-supplied value as text: int -> str conversion is bounded by
            # sys.get_int_max_str_digits() (ValueError beyond 4300 digits since CPython 3.11)
            v = n.value if isinstance(n, ast.FormattedValue) else n.args[0]
            if (isinstance(v, ast.Name) and self._is_value_param(v.id, f)) or self._may_render_huge_int(v, f, n):
                o = self._origin(f, n, "partial", norm(n) if not isinstance(n, ast.FormattedValue) else "{" + norm(v) + "}")
                out.setdefault(("ValueError", o), None)
        elif isinstance(n, ast.AugAssign) and isinstance(n.op, (ast.Div, ast.FloorDiv, ast.Mod, ast.Pow)):
            o = self._origin(f, n, "partial", norm(n))
            out.setdefault(("ZeroDivisionError", o), None)
            out.setdefault(("OverflowError", o), None)
        return out

    VALUE_PARAM_NAMES = ("value", "data", "sub_value", "instance")
    TEXT_SAFE_ATTRS = ("__name__", "__qualname__", "name", "source", "annotation", "message", "args")

    def _message_site(self, f, n):
        """Is `n` part of the construction of an exception message?  (a method of an exception class, an
        `error_message` method, or an argument of a raised / exception-building call)"""
        if f.name == "error_message":
            return True
        if f.cls is not None and any(b in ("Exception", "BaseException") for b in f.cls.ext_bases()):
            return True
        P = self._parents[f]
        cur = P.parent.get(id(n))
        while cur is not None and not isinstance(cur, ast.stmt):
            if isinstance(cur, ast.Call):
                d = dotted(cur.func) or ""
                head = d.split(".")[0]
                r = self.prog.resolve_in(f, head) if head else None
                if r and r[0] == "class" and any(b in ("Exception", "BaseException") for b in r[1].ext_bases()):
                    return True
            cur = P.parent.get(id(cur))
        return isinstance(cur, ast.Raise)

    def _may_render_huge_int(self, v, f, n, _depth=0):
        """Rendering `v` into an exception message may have to convert an arbitrarily large integer (taken from the
        schema or the value) to text: ValueError beyond sys.get_int_max_str_digits() digits."""
        if not self._message_site(f, n):
            return False
        if isinstance(v, (ast.Constant, ast.JoinedStr)):
            return False
        if isinstance(v, ast.Attribute) and v.attr in self.TEXT_SAFE_ATTRS:
            return False
        if isinstance(v, ast.Call):
            d = dotted(v.func) or ""
            if d == "repr" and v.args:
                return self._may_render_huge_int(v.args[0], f, n, _depth + 1)
            if d.split(".")[-1] in ("_safe_repr", "len", "type", "join", "format", "lstrip", "rstrip", "strip", "lower", "upper",
                                     "title", "sorted_names"):
                return False
        if isinstance(v, ast.Name) and _depth < 4 and v.id in f.locals() and f.param(v.id) is None:
            # a local standing for expressions that are themselves harmless to render (n = len(xs); f"{n}")
            binds = self.inf.bindings(f).get(v.id, [])
            exprs = []
            for b in binds:
                if b[0] == "assign":
                    exprs.append(b[1])
                elif b[0] == "unpack" and b[1][0] == "assign" and isinstance(b[1][1], (ast.Tuple, ast.List)) and b[2] < len(b[1][1].elts):
                    exprs.append(b[1][1].elts[b[2]])
                else:
                    exprs = None
                    break
            if exprs and not any(isinstance(e_, ast.Name) or self._may_render_huge_int(e_, f, n, _depth + 1) for e_ in exprs):
                return False
        ts = self.inf.type_of(v, f)
        def safe(t):
            if t in (("b", "str"), ("b", "bool"), ("b", "none"), ("b", "float"), ("b", "NoneType")) or t[0] in ("cls", "mod", "fn", "rawfn"):
                return True
            if t[0] == "inst" and hasattr(t[1], "ext_bases") and any(b in ("Exception", "BaseException") for b in t[1].ext_bases()):
                return True  # the text of an exception that was already built
            return False
        if ts and all(safe(t) for t in ts):
            return False
        return True

    def _is_value_param(self, name, f):
        """`name` is a parameter that carries the caller's (JSON) value."""
        g = f
        while g is not None:
            p = g.param(name)
            if p is not None:
                if name not in self.VALUE_PARAM_NAMES:
                    return False
                ann = norm(p.annotation) if p.annotation is not None else ""
                return ann not in ("str", "bool")
            if name in g.locals():
                return False
            g = g.parent
        return False

    def _note_discharge(self, f, node, what, reason):
        key = (f.qualname, id(node))
        if key not in self._disch_seen:
            self._disch_seen.add(key)
            self.discharged.append((f, node, what, reason))

    def _is_annotation_subscript(self, n, f):
        # typing subscripts such as Dict[str, Any] in annotated assignments / casts
        d = dotted(n.value)
        if d and d.split(".")[-1] in ("Dict", "List", "Optional", "Union", "Tuple", "Type", "Set", "Callable",
                                      "Iterator", "Iterable", "DefaultDict", "Maybe", "Literal", "Generic",
                                      "ClassVar", "Container", "Element", "_Property"):
            return True
        return False

    def _is_string_format(self, n, f):
        if not isinstance(n.op, ast.Mod):
            return False
        if isinstance(n.left, (ast.Constant, ast.JoinedStr)) and isinstance(getattr(n.left, "value", ""), str):
            return True
        ts = self.inf.type_of(n.left, f)
        return bool(ts) and all(t == ("b", "str") for t in ts)

    def _divisor_not_float(self, n, f):
        P = self._parents[f]
        for t, pol in self._flat_guards(P, n):
            ia = isinstance_atom(t, pol)
            if ia and ia[0] == norm(n.right) and ia[1] == ["float"] and ia[2] is False:
                return True
        return False

    def _flat_guards(self, P, node):
        out = []
        for t, pol in guards_of(P, node):
            out += flatten_guard(t, pol)
        return out

    def _subscript_excs(self, n, f):
        ts = self.inf.type_of(n.value, f)
        kinds = {t[1] for t in ts if t[0] == "b"}
        if kinds and kinds <= {"dict"}:
            return ["KeyError"]
        if kinds and kinds <= {"list", "tuple", "str"}:
            return ["IndexError"]
        if isinstance(n.value, ast.Dict):
            return ["KeyError"]
        if isinstance(n.slice, ast.Constant) and isinstance(n.slice.value, str):
            return ["KeyError"]  # a sequence indexed by a string raises TypeError
        return ["KeyError", "IndexError"]

    # ------------------------------------------------------ discharge idioms
    def _subscript_safe(self, n, f):
        P = self._parents[f]
        base, key = n.value, n.slice
        bt, kt = norm(base), norm(key)
        guards = self._flat_guards(P, n)
        # 1. dominating membership test on the same container and key
        for t, pol in guards:
            c = cmp_atom(t, pol)
            if c and c[1] == "in" and c[0] == kt and c[2] == bt:
                return f"dominated by `{kt} in {bt}`"
        # 2. iteration over the same container's keys
        for par, fld, child in P.chain(n):
            it = None
            tgt = None
            if isinstance(par, ast.For) and fld in ("body",):
                it, tgt = par.iter, par.target
            elif isinstance(par, (ast.ListComp, ast.SetComp, ast.GeneratorExp, ast.DictComp)):
                for g in par.generators:
                    if self._iterates_keys(g.iter, g.target, bt, kt):
                        return f"key drawn from iteration over {bt}"
            if it is not None and self._iterates_keys(it, tgt, bt, kt):
                return f"key drawn from iteration over {bt}"
        # 3. dict display with constant keys and a matching isinstance guard (bool table)
        if isinstance(base, ast.Dict) and base.keys and all(isinstance(k, ast.Constant) for k in base.keys):
            keys = {k.value for k in base.keys}
            if keys == {True, False}:
                for t, pol in guards:
                    ia = isinstance_atom(t, pol)
                    if ia and ia[0] == kt and ia[1] == ["bool"] and ia[2]:
                        return "two-entry bool table under isinstance(x, bool)"
        # 4. constant index 0 / -1 under a non-emptiness or length guard
        if isinstance(key, ast.Constant) and key.value in (0, -1):
            for t, pol in guards:
                t2, pol2 = strip_not(t, pol)
                if norm(t2) == bt and pol2:
                    return f"dominated by non-emptiness of {bt}"
                c = cmp_atom(t, pol)
                if c and c[0] == f"len({bt})":
                    try:
                        k = int(c[2])
                    except ValueError:
                        continue
                    if (c[1] == "==" and k >= 1) or (c[1] == ">" and k >= 0) or (c[1] == ">=" and k >= 1) or (c[1] == "!=" and k == 0):
                        return f"dominated by `len({bt}) {c[1]} {k}`"
            # element of filter(None, ...) is a non-empty string
            if isinstance(base, ast.Name) and self._drawn_from_filter_none(base.id, f):
                return "element drawn from filter(None, ...) is non-empty"
            if isinstance(base, ast.Name) and f.param(base.id) is not None:
                srcs = self.inf.param_args(f, base.id)
                if srcs and all(isinstance(a, ast.Name) and isinstance(sc, Func) and self._drawn_from_filter_none(a.id, sc) for sc, a in srcs):
                    return "every caller passes an element drawn from filter(None, ...) (non-empty)"
            # split() always returns at least one element
            if isinstance(base, ast.Call) and isinstance(base.func, ast.Attribute) and base.func.attr in ("split", "rsplit", "partition"):
                return "str.split() returns at least one element"
        if isinstance(key, ast.Constant) and isinstance(key.value, int) and isinstance(base, ast.Call) \
                and isinstance(base.func, ast.Attribute) and base.func.attr in ("split", "rsplit") and key.value in (0, -1):
            return "str.split() returns at least one element"
        # 5. neighbour index under the enumerate idiom
        if isinstance(key, ast.BinOp) and isinstance(key.left, ast.Name) and isinstance(key.right, ast.Constant) \
                and key.right.value == 1:
            i = key.left.id
            for t, pol in guards:
                c = cmp_atom(t, pol)
                if not c:
                    continue
                if isinstance(key.op, ast.Sub) and c[0] == i and ((c[1] == "!=" and c[2] == "0") or (c[1] == ">" and c[2] == "0") or (c[1] == ">=" and c[2] == "1")):
                    if self._enumerates(i, bt, f):
                        return f"`{i} != 0` under enumerate({bt})"
                if isinstance(key.op, ast.Add) and c[0] == i and c[1] in ("!=", "<") and c[2] == f"len({bt}) - 1":
                    if self._enumerates(i, bt, f):
                        return f"`{i} != len({bt}) - 1` under enumerate({bt})"
        # 6. params-key discipline (X4)
        r = self._params_key_safe(n, f)
        if r:
            return r
        # 7. defaultdict field
        if isinstance(base, ast.Attribute) and self._field_is_defaultdict(base, f):
            return "field initialised as a defaultdict in every constructor store"
        # 8. index tuple unpack positions `_[0]`, `_[1]` over dict.items()
        if isinstance(key, ast.Constant) and key.value in (0, 1) and isinstance(base, ast.Name) and isinstance(f.node, ast.Lambda):
            return None
        # 9. typing-style subscripts on classes
        return None

    def _field_is_defaultdict(self, base, f):
        classes = [t[1] for t in self.inf.type_of(base.value, f) if t[0] == "inst"]
        if not classes:
            return False
        for c in classes:
            stores = []
            for k in c.mro:
                for m in k.methods.values():
                    sp = m.self_param()
                    if not sp:
                        continue
                    for n in walk_own(m.body):
                        tgt, val = None, None
                        if isinstance(n, ast.Assign) and len(n.targets) == 1:
                            tgt, val = n.targets[0], n.value
                        elif isinstance(n, ast.AnnAssign):
                            tgt, val = n.target, n.value
                        if isinstance(tgt, ast.Attribute) and norm(tgt.value) == sp and tgt.attr == base.attr:
                            stores.append(val)
            if not stores or not all(isinstance(v, ast.Call) and dotted(v.func) in ("defaultdict", "collections.defaultdict")
                                     and v.args for v in stores):
                return False
        return True

    def _iterates_keys(self, it, tgt, bt, kt):
        if isinstance(it, ast.Call) and isinstance(it.func, ast.Attribute) and it.func.attr == "items" \
                and norm(it.func.value) == bt and isinstance(tgt, ast.Tuple) and tgt.elts and norm(tgt.elts[0]) == kt:
            return True
        if isinstance(it, ast.Call) and isinstance(it.func, ast.Attribute) and it.func.attr == "keys" \
                and norm(it.func.value) == bt and norm(tgt) == kt:
            return True
        if norm(it) == bt and norm(tgt) == kt:
            return True
        if isinstance(it, ast.Call) and dotted(it.func) in ("list", "sorted", "tuple") and it.args \
                and norm(it.args[0]) == bt and norm(tgt) == kt:
            return True
        return False

    def _drawn_from_filter_none(self, name, f):
        g = f
        while g is not None:
            for b in self.inf.bindings(g).get(name, []):
                if b[0] == "iter":
                    src = b[1]
                    if isinstance(src, ast.Name):
                        for b2 in self.inf.bindings(g).get(src.id, []):
                            if b2[0] == "assign" and self._is_filter_none(b2[1]):
                                return True
                    if self._is_filter_none(src):
                        return True
            g = g.parent
        return False

    def _is_filter_none(self, e):
        if isinstance(e, ast.Call) and dotted(e.func) in ("list", "tuple") and e.args:
            e = e.args[0]
        if isinstance(e, (ast.ListComp, ast.GeneratorExp)) and len(e.generators) == 1:
            g = e.generators[0]
            if norm(e.elt) == norm(g.target) and any(norm(c) == norm(g.target) for c in g.ifs):
                return True  # [w for w in xs if w]: only truthy (non-empty) members
        return (isinstance(e, ast.Call) and dotted(e.func) == "filter" and e.args
                and isinstance(e.args[0], ast.Constant) and e.args[0].value is None)

    def _enumerates(self, i, bt, f):
        g = f
        while g is not None:
            for p in g.params:
                pass
            for b in self.inf.bindings(g).get(i, []):
                if b[0] == "unpack" and b[1][0] == "iter":
                    it = b[1][1]
                    if isinstance(it, ast.Call) and dotted(it.func) == "enumerate" and it.args and norm(it.args[0]) == bt:
                        return True
                if b[0] == "param":
                    # index parameter supplied from enumerate(<bt>) through map/expand
                    for scope, a in self.inf.param_args(g, b[1].name):
                        pass
                    outer = g.parent
                    if outer is not None:
                        for n in walk_own(outer.body):
                            if isinstance(n, ast.Call) and dotted(n.func) == "enumerate" and n.args and norm(n.args[0]) == bt:
                                return True
            g = g.parent
        return self._enumerates_through_partial(i, bt, f)

    def _enumerates_through_partial(self, i, bt, f):
        """f(bt, i, item) is only ever used as `map(<wrappers>(partial(f, X)), enumerate(X))`:
        then `i` enumerates `bt` (the closure idiom with the sequence passed explicitly)."""
        names = [p.name for p in f.params]
        if f.parent is not None or len(names) < 2 or names[0] != bt or names[1] != i:
            return False
        uses = 0
        for g in self.prog.all_funcs():
            if g.module is not f.module and f.name not in getattr(g.module, "imports", {}):
                continue
            from .paths import Parents
            P = Parents(g)
            for n in walk_own(g.body):
                if not (isinstance(n, ast.Name) and n.id == f.name and isinstance(n.ctx, ast.Load)):
                    continue
                r = self.prog.resolve_in(g, n.id)
                if not (r and r[0] == "func" and r[1] is f):
                    continue
                uses += 1
                chain = [par for par, _, _ in P.chain(n)]
                part = next((c for c in chain if isinstance(c, ast.Call) and dotted(c.func) in ("partial", "functools.partial")
                             and c.args and c.args[0] is n and len(c.args) == 2), None)
                if part is None:
                    return False
                mp = next((c for c in chain if isinstance(c, ast.Call) and dotted(c.func) == "map" and len(c.args) == 2
                           and isinstance(c.args[1], ast.Call) and dotted(c.args[1].func) == "enumerate" and c.args[1].args), None)
                if mp is None or norm(mp.args[1].args[0]) != norm(part.args[1]):
                    return False
        return uses > 0

    def _params_key_safe(self, n, f):
        """`<recv>.params["k"]`: k is in the validator class's own keywords
        (for every class on which the method can run) or stored by __init__."""
        base, key = n.value, n.slice
        if not (isinstance(base, ast.Attribute) and base.attr == "params" and isinstance(key, ast.Constant)
                and isinstance(key.value, str)):
            return None
        classes = []
        recv = base.value
        for t in self.inf.type_of(recv, f):
            if t[0] == "inst":
                classes.append(t[1])
        if not classes:
            return None
        k = key.value
        for c in classes:
            for k_cls in [c] + self.prog.subclasses(c):
                if not self._class_has_param_key(k_cls, k):
                    return None
        return f"params key {k!r} is declared in `keywords` (or stored by __init__) of every class this method runs on"

    def _class_has_param_key(self, c, k):
        g = c.lookup("keywords")
        if g and g[0] == "const":
            e = g[1]
            if isinstance(e, (ast.Tuple, ast.List)):
                if any(isinstance(x, ast.Constant) and x.value == k for x in e.elts):
                    return True
        for kc in c.mro:
            init = kc.methods.get("__init__")
            if init is None:
                continue
            sp = init.self_param()
            for n in walk_own(init.body):
                if isinstance(n, ast.Assign):
                    for t in n.targets:
                        if (isinstance(t, ast.Subscript) and norm(t.value) == f"{sp}.params"
                                and isinstance(t.slice, ast.Constant) and t.slice.value == k):
                            return True
            break
        return False

    # ------------------------------------------------------- external calls
    def _ext_raises(self, x, f):
        """Yield (exception, description) for an external call."""
        node = x.node
        name = x.name
        out = []
        if not isinstance(node, ast.Call):
            return out
        text = norm(node)
        if name == "getattr":
            if len(node.args) == 2:
                out.append(("AttributeError", text))
            return out
        if name in ("setattr", "repr", "str", "hash"):
            return out
        if name.startswith("."):
            m = name[1:]
            from .infer import BUILTIN_METHODS
            if m not in BUILTIN_METHODS and self._site_index[f].get(id(node), ([], []))[0]:
                return out  # resolved (by name) to repository methods; their escapes are propagated
            return self._method_raises(m, node, f, text)
        if name.startswith("<") and ">." in name:
            m = name.split(">.", 1)[1]
            return self._method_raises(m, node, f, text)
        if name.startswith("super."):
            return out
        if name.startswith("<") and name.endswith(">"):
            return out  # calling a list/bool/...: not callable, TypeError only
        if name.startswith("ctor:"):
            return out
        if name == "<unknown>":
            return out  # fallback edges carry the repo callees; an external callable is outside the closed world
        if name.startswith("(") and name.endswith(")()"):
            return out
        d = dotted(node.func) or name
        if d == "next" or name == "next":
            if len(node.args) == 1:
                out.append(("StopIteration", text))
            return out
        if d == "unicodedata.name":
            if len(node.args) == 1:
                out.append(("ValueError", text))
            return out
        if d == "unicodedata.normalize":
            # ValueError only for an unknown form name
            if not (node.args and isinstance(node.args[0], ast.Constant) and node.args[0].value in ("NFC", "NFKC", "NFD", "NFKD")):
                out.append(("ValueError", text))
            return out
        if d in ("min", "max"):
            has_default = any(k.arg == "default" for k in node.keywords)
            if len(node.args) == 1 and not has_default:
                out.append(("ValueError", text))
            return out
        for key in (d, name, d.split(".")[-1] if d else None):
            if key in EXT_RAISES:
                for exc in EXT_RAISES[key]:
                    if key.endswith("Fraction") and exc == "ZeroDivisionError" and len(node.args) < 2:
                        continue  # only Fraction(n, 0) divides
                    out.append((exc, text))
                return out
        for key in (d, name):
            if key in EXT_TOTAL:
                return out
        # exception constructors and plain builtin types are total
        last = (d or name).split(".")[-1]
        bi = getattr(builtins, last, None)
        if isinstance(bi, type) and issubclass(bi, BaseException):
            return out
        if d and d.split(".")[0] in ("typing", "logging", "LOGGER", "parser", "required", "optional", "stdout", "output", "file"):
            return out
        self.unknown_ext.append((f, node, d or name))
        return out

    def _method_raises(self, m, node, f, text):
        out = []
        recv = node.func.value if isinstance(node.func, ast.Attribute) else None
        if m == "pop":
            # list.pop() / dict.pop(k) without default
            if len(node.args) <= 1 and not node.keywords:
                ts = self.inf.type_of(recv, f) if recv is not None else frozenset()
                kinds = {t[1] for t in ts if t[0] == "b"}
                if len(node.args) == 1 and not (kinds and kinds <= {"list"}):
                    out.append(("KeyError", text))
                if len(node.args) == 0 or (kinds and "list" in kinds) or not kinds:
                    out.append(("IndexError", text))
            return out
        if m == "format":
            if recv is not None and isinstance(recv, (ast.Constant, ast.JoinedStr)):
                return out  # literal template: checked by eye of the language (fields are positional/keyword literal)
            out.append(("KeyError", text))
            out.append(("IndexError", text))
            out.append(("ValueError", text))
            return out
        if m in METHOD_RAISES:
            for exc in METHOD_RAISES[m]:
                out.append((exc, text))
            return out
        if m in METHOD_TOTAL:
            return out
        self.unknown_ext.append((f, node, "." + m))
        return out

    # ------------------------------------------------------------ reporting
    def chain(self, f, exc, origin, limit=40):
        out = []
        cur = f
        for _ in range(limit):
            via = self.esc[cur].get((exc, origin))
            if via is None:
                out.append(f"{cur.short} :: {origin.text}  [{origin.kind}: {exc}]")
                break
            out.append(f"{cur.short} -> {via.callee.short} [{via.kind}/{via.edge}] at `{norm(via.node)[:80]}`")
            cur = via.callee
        return out


def build(ctx):
    return Escape(ctx)
