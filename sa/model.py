"""E1 - program model of the `statham` package, built from source with `ast`.

Nothing here imports or executes repository code.  The model gives every
module, class (with C3 MRO over repo classes), function (including nested
defs and lambdas), parameters, decorators, class/module constants and import
resolution.
"""
import ast
import builtins
import os


class AnalysisError(Exception):
    """The analysis cannot see what it needs (anchor vanished, parse error)."""


BUILTIN_NAMES = set(dir(builtins))


class Param:
    __slots__ = ("name", "kind", "default", "annotation", "index")

    def __init__(self, name, kind, default, annotation, index):
        self.name = name
        self.kind = kind  # posonly | pos | vararg | kwonly | kwarg
        self.default = default
        self.annotation = annotation
        self.index = index

    def __repr__(self):
        return f"Param({self.name},{self.kind})"


def _params_of(args: ast.arguments):
    out = []
    posonly = list(args.posonlyargs)
    pos = list(args.args)
    defaults = list(args.defaults)
    allpos = posonly + pos
    pad = [None] * (len(allpos) - len(defaults)) + defaults
    idx = 0
    for a, d in zip(allpos, pad):
        kind = "posonly" if a in posonly else "pos"
        out.append(Param(a.arg, kind, d, a.annotation, idx))
        idx += 1
    if args.vararg:
        out.append(Param(args.vararg.arg, "vararg", None, args.vararg.annotation, idx))
        idx += 1
    for a, d in zip(args.kwonlyargs, args.kw_defaults):
        out.append(Param(a.arg, "kwonly", d, a.annotation, idx))
        idx += 1
    if args.kwarg:
        out.append(Param(args.kwarg.arg, "kwarg", None, args.kwarg.annotation, idx))
        idx += 1
    return out


class Func:
    def __init__(self, prog, module, cls, parent, node, name):
        self.prog = prog
        self.module = module
        self.cls = cls
        self.parent = parent  # enclosing Func or None
        self.node = node
        self.name = name
        self.params = _params_of(node.args)
        self.decorators = list(getattr(node, "decorator_list", []))
        self.nested = {}
        self.lambdas = []
        self.kind = "function"
        self.prop_name = None
        if isinstance(node, ast.Lambda):
            ret = ast.Return(value=node.body)
            ast.copy_location(ret, node.body)
            self.body = [ret]
        else:
            self.body = node.body
        owner = parent.qualname if parent else (cls.qualname if cls else None)
        if owner:
            sep = "." if (parent is None) else "."
            self.qualname = f"{owner}{sep}{name}"
        else:
            self.qualname = f"{module.relpath}::{name}"
        self.local_names = None  # computed lazily

    @property
    def short(self):
        return self.qualname.split("::", 1)[1]

    def param(self, name):
        for p in self.params:
            if p.name == name:
                return p
        return None

    def is_method(self):
        return self.cls is not None and self.parent is None

    def self_param(self):
        """Name of the receiver parameter (self/cls/mcs), if any."""
        if self.is_method() and self.kind != "staticmethod" and self.params:
            if self.params[0].kind in ("pos", "posonly"):
                return self.params[0].name
        return None

    def decorator_names(self):
        out = []
        for d in self.decorators:
            target = d.func if isinstance(d, ast.Call) else d
            out.append(dotted(target))
        return out

    def __repr__(self):
        return f"<Func {self.qualname}>"

    def walk_own(self):
        """Walk the body without descending into nested defs/lambdas/classes."""
        return walk_own(self.body)

    def locals(self):
        if self.local_names is None:
            names = {p.name for p in self.params}
            for n in self.walk_own():
                if isinstance(n, ast.Name) and isinstance(n.ctx, (ast.Store, ast.Del)):
                    names.add(n.id)
                elif isinstance(n, (ast.FunctionDef, ast.AsyncFunctionDef, ast.ClassDef)):
                    names.add(n.name)
                elif isinstance(n, ast.ExceptHandler) and n.name:
                    names.add(n.name)
                elif isinstance(n, (ast.Import, ast.ImportFrom)):
                    for a in n.names:
                        names.add((a.asname or a.name).split(".")[0])
            self.local_names = names
        return self.local_names


def walk_own(body):
    """Yield nodes of a statement list, not descending into nested scopes
    (function/lambda/class bodies); the nested scope node itself is yielded."""
    stack = list(reversed(body)) if isinstance(body, list) else [body]
    while stack:
        n = stack.pop()
        yield n
        if isinstance(n, (ast.FunctionDef, ast.AsyncFunctionDef, ast.Lambda, ast.ClassDef)):
            # decorators/defaults are evaluated in the enclosing scope
            if not isinstance(n, ast.ClassDef):
                for d in getattr(n, "decorator_list", []):
                    stack.append(d)
                for d in n.args.defaults + [x for x in n.args.kw_defaults if x is not None]:
                    stack.append(d)
            else:
                for d in n.decorator_list + n.bases + [k.value for k in n.keywords]:
                    stack.append(d)
            continue
        stack.extend(reversed(list(ast.iter_child_nodes(n))))


def dotted(node):
    """Dotted text of a Name/Attribute chain, else None."""
    if isinstance(node, ast.Name):
        return node.id
    if isinstance(node, ast.Attribute):
        base = dotted(node.value)
        return f"{base}.{node.attr}" if base else None
    return None


class Class:
    def __init__(self, prog, module, node, parent_cls=None):
        self.prog = prog
        self.module = module
        self.node = node
        self.name = node.name
        self.qualname = f"{module.relpath}::{node.name}"
        self.base_nodes = list(node.bases)
        self.metaclass_node = None
        for k in node.keywords:
            if k.arg == "metaclass":
                self.metaclass_node = k.value
        self.class_kwargs = {k.arg: k.value for k in node.keywords if k.arg and k.arg != "metaclass"}
        self.bases = []  # Class | str
        self.generic_args = []  # list of ast for subscripted bases [(head, slice)]
        self.methods = {}
        self.props = {}  # name -> {"get": Func, "set": Func}
        self.consts = {}  # name -> expr
        self.annots = {}  # name -> annotation expr
        self.mro = None
        self.metaclass = None

    @property
    def short(self):
        return self.name

    def __repr__(self):
        return f"<Class {self.qualname}>"

    def is_subclass_of(self, other):
        return other in self.mro

    def lookup(self, name):
        """Find attribute `name` through the MRO (repo part).
        Returns ('method', Func) | ('prop', dict) | ('const', Class, expr) | None."""
        for c in self.mro:
            if name in c.props:
                return ("prop", c.props[name], c)
            if name in c.methods:
                return ("method", c.methods[name], c)
            if name in c.consts:
                return ("const", c.consts[name], c)
        return None

    def ext_bases(self):
        out = []
        for c in self.mro:
            for b in c.bases:
                if isinstance(b, str):
                    out.append(b)
        return out


class _PresenceSpelling(ast.NodeTransformer):
    """One spelling for "the recorded JSON name, else the Python name".

    `b if p.source is None else p.source`  (and `p.source if p.source is not None else b`) are read as
    `p.source or b`; `if p.source is None:` as `if not p.source:`.  The rewritten nodes carry `_presence = True`,
    which is what rule N5 looks at: the rules about WHICH name is used share one spelling, and N5 alone decides
    whether presence or truth is tested."""

    @staticmethod
    def _is_source(e):
        return isinstance(e, ast.Attribute) and e.attr == "source"

    def _none_test(self, t):
        """(subject, is_none) for `X.source is None` / `X.source is not None`"""
        if isinstance(t, ast.Compare) and len(t.ops) == 1 and isinstance(t.ops[0], (ast.Is, ast.IsNot)) \
                and self._is_source(t.left) and isinstance(t.comparators[0], ast.Constant) and t.comparators[0].value is None:
            return t.left, isinstance(t.ops[0], ast.Is)
        return None, None

    def visit_IfExp(self, node):
        self.generic_visit(node)
        subj, is_none = self._none_test(node.test)
        if subj is not None:
            same, other = (node.orelse, node.body) if is_none else (node.body, node.orelse)
            if self._is_source(same) and ast.dump(same) == ast.dump(subj):
                new = ast.BoolOp(op=ast.Or(), values=[same, other])
                new._presence = True
                return ast.copy_location(new, node)
        return node

    def visit_If(self, node):
        self.generic_visit(node)
        subj, is_none = self._none_test(node.test)
        if subj is not None:
            new = ast.UnaryOp(op=ast.Not(), operand=subj) if is_none else subj
            new = ast.copy_location(new, node.test)
            new._presence = True
            node.test = new
        return node


class Module:
    def __init__(self, prog, name, relpath, path, tree, source):
        self.prog = prog
        self.name = name  # dotted
        self.relpath = relpath  # statham/schema/parser.py
        self.path = path
        self.tree = tree
        self.source = source
        self.imports = {}  # local -> (module dotted, attr|None)
        self.funcs = {}
        self.classes = {}
        self.consts = {}  # name -> expr (module level simple assignments; last wins)
        self.const_all = {}  # name -> [expr]
        self.toplevel_calls = []  # module-level expression statements / decorators
        self.is_pkg = relpath.endswith("__init__.py")

    def __repr__(self):
        return f"<Module {self.name}>"


class Program:
    def __init__(self, repo_root, package="statham"):
        self.root = repo_root
        self.package = package
        self.modules = {}
        self.by_relpath = {}
        self.funcs = {}  # qualname -> Func
        self.classes = {}  # qualname -> Class
        self._load()
        self._link()

    # ------------------------------------------------------------------ load
    def _load(self):
        pkg_dir = os.path.join(self.root, self.package)
        if not os.path.isdir(pkg_dir):
            raise AnalysisError(f"package directory not found: {pkg_dir}")
        for dirpath, dirnames, filenames in os.walk(pkg_dir):
            dirnames[:] = sorted(d for d in dirnames if d != "__pycache__")
            for fn in sorted(filenames):
                if not fn.endswith(".py"):
                    continue
                path = os.path.join(dirpath, fn)
                rel = os.path.relpath(path, self.root)
                parts = rel[:-3].split(os.sep)
                if parts[-1] == "__init__":
                    parts = parts[:-1]
                name = ".".join(parts)
                with open(path, encoding="utf8") as fh:
                    src = fh.read()
                try:
                    tree = ast.parse(src, filename=rel)
                except SyntaxError as exc:
                    raise AnalysisError(f"cannot parse {rel}: {exc}")
                tree = _PresenceSpelling().visit(tree)
                ast.fix_missing_locations(tree)
                mod = Module(self, name, rel.replace(os.sep, "/"), path, tree, src)
                self.modules[name] = mod
                self.by_relpath[mod.relpath] = mod
        for mod in self.modules.values():
            self._index_module(mod)

    def _index_module(self, mod):
        for node in self._module_statements(mod.tree.body):
            if isinstance(node, ast.Import):
                for a in node.names:
                    local = a.asname or a.name.split(".")[0]
                    target = a.name if a.asname else a.name.split(".")[0]
                    mod.imports[local] = (target, None)
            elif isinstance(node, ast.ImportFrom):
                base = node.module or ""
                if node.level:
                    pkg_parts = mod.name.split(".")
                    if not mod.is_pkg:
                        pkg_parts = pkg_parts[:-1]
                    pkg_parts = pkg_parts[: len(pkg_parts) - (node.level - 1)]
                    base = ".".join(pkg_parts + ([node.module] if node.module else []))
                for a in node.names:
                    mod.imports[a.asname or a.name] = (base, a.name)
            elif isinstance(node, (ast.FunctionDef, ast.AsyncFunctionDef)):
                f = self._make_func(mod, None, None, node, node.name)
                mod.funcs[node.name] = f
            elif isinstance(node, ast.ClassDef):
                c = self._make_class(mod, node)
                mod.classes[node.name] = c
            elif isinstance(node, ast.Assign):
                for t in node.targets:
                    if isinstance(t, ast.Name):
                        mod.consts[t.id] = node.value
                        mod.const_all.setdefault(t.id, []).append(node.value)
            elif isinstance(node, ast.AnnAssign):
                if isinstance(node.target, ast.Name) and node.value is not None:
                    mod.consts[node.target.id] = node.value
                    mod.const_all.setdefault(node.target.id, []).append(node.value)
            # module-level lambdas assigned to names
        # lambdas at module level
        self._collect_lambdas_toplevel(mod)

    def _module_statements(self, body):
        """Flatten `if TYPE_CHECKING:`/try blocks at module level."""
        for node in body:
            if isinstance(node, ast.If):
                yield from self._module_statements(node.body)
                yield from self._module_statements(node.orelse)
            elif isinstance(node, ast.Try):
                yield from self._module_statements(node.body)
                for h in node.handlers:
                    yield from self._module_statements(h.body)
                yield from self._module_statements(node.orelse)
                yield from self._module_statements(node.finalbody)
            else:
                yield node

    def _collect_lambdas_toplevel(self, mod):
        mod.lambdas = []
        for n in walk_own(mod.tree.body):
            if isinstance(n, ast.Lambda):
                f = Func(self, mod, None, None, n, f"<lambda@{len(mod.lambdas)}>")
                mod.lambdas.append(f)
                self.funcs[f.qualname] = f
                self._scan_nested(f)

    def _make_class(self, mod, node):
        c = Class(self, mod, node)
        self.classes[c.qualname] = c
        for st in node.body:
            if isinstance(st, (ast.FunctionDef, ast.AsyncFunctionDef)):
                dnames = [dotted(d.func if isinstance(d, ast.Call) else d) for d in st.decorator_list]
                is_setter = any(d and d.endswith(".setter") for d in dnames)
                f = self._make_func(mod, c, None, st, st.name, suffix=".setter" if is_setter else "")
                decs = f.decorator_names()
                if "property" in decs or any(d and d.split(".")[-1] == "cached_property" for d in decs):
                    f.kind = "property_get"
                    f.prop_name = st.name
                    c.props.setdefault(st.name, {})["get"] = f
                elif any(d and d.endswith(".setter") for d in decs):
                    f.kind = "property_set"
                    f.prop_name = st.name
                    c.props.setdefault(st.name, {})["set"] = f
                else:
                    if "classmethod" in decs:
                        f.kind = "classmethod"
                    elif "staticmethod" in decs:
                        f.kind = "staticmethod"
                    else:
                        f.kind = "method"
                    c.methods[st.name] = f
            elif isinstance(st, ast.Assign):
                for t in st.targets:
                    if isinstance(t, ast.Name):
                        c.consts[t.id] = st.value
            elif isinstance(st, ast.AnnAssign) and isinstance(st.target, ast.Name):
                c.annots[st.target.id] = st.annotation
                if st.value is not None:
                    c.consts[st.target.id] = st.value
        return c

    def _all_nested(self, f):
        for g in list(f.nested.values()) + f.lambdas:
            yield g
            yield from self._all_nested(g)

    def _make_func(self, mod, cls, parent, node, name, suffix=""):
        f = Func(self, mod, cls, parent, node, name)
        f.qualname += suffix
        if f.qualname in self.funcs:
            raise AnalysisError(f"duplicate definition of {f.qualname}")
        self.funcs[f.qualname] = f
        self._scan_nested(f)
        return f

    def _scan_nested(self, f):
        for n in walk_own(f.body):
            if isinstance(n, (ast.FunctionDef, ast.AsyncFunctionDef)):
                g = self._make_func(f.module, f.cls, f, n, n.name)
                f.nested[n.name] = g
            elif isinstance(n, ast.Lambda):
                g = Func(self, f.module, f.cls, f, n, f"<lambda@{len(f.lambdas)}>")
                f.lambdas.append(g)
                self.funcs[g.qualname] = g
                self._scan_nested(g)

    # ------------------------------------------------------------------ link
    def _link(self):
        for c in self.classes.values():
            for b in c.base_nodes:
                head = b
                if isinstance(b, ast.Subscript):
                    head = b.value
                    c.generic_args.append((head, b.slice))
                target = self.resolve_global(c.module, dotted(head)) if dotted(head) else None
                if target and target[0] == "class":
                    c.bases.append(target[1])
                else:
                    c.bases.append(self._ext_name(c.module, head))
            if c.metaclass_node is not None:
                t = self.resolve_global(c.module, dotted(c.metaclass_node))
                if t and t[0] == "class":
                    c.metaclass = t[1]
        for c in self.classes.values():
            self._mro(c, ())
        # metaclass inheritance
        for c in self.classes.values():
            if c.metaclass is None:
                for b in c.mro[1:]:
                    if b.metaclass is not None:
                        c.metaclass = b.metaclass
                        break

    def _ext_name(self, mod, node):
        d = dotted(node)
        if d is None:
            return ast.unparse(node)
        first = d.split(".")[0]
        if first in mod.imports:
            m, a = mod.imports[first]
            rest = d.split(".")[1:]
            return ".".join([m] + ([a] if a else []) + rest)
        return d

    def _mro(self, c, stack):
        if c.mro is not None:
            return c.mro
        if c in stack:
            raise AnalysisError(f"cyclic inheritance at {c.qualname}")
        seqs = []
        repo_bases = [b for b in c.bases if isinstance(b, Class)]
        for b in repo_bases:
            seqs.append(list(self._mro(b, stack + (c,))))
        seqs.append(list(repo_bases))
        res = [c]
        seqs = [s for s in seqs if s]
        while seqs:
            for s in seqs:
                cand = s[0]
                if not any(cand in t[1:] for t in seqs):
                    break
            else:
                raise AnalysisError(f"inconsistent MRO for {c.qualname}")
            res.append(cand)
            seqs = [[x for x in s if x is not cand] for s in seqs]
            seqs = [s for s in seqs if s]
        c.mro = res
        return res

    # --------------------------------------------------------------- queries
    def module_of(self, dotted_name):
        return self.modules.get(dotted_name)

    def resolve_global(self, mod, name, _depth=0):
        """Resolve a (possibly dotted) global name in a module.
        Returns ('func', Func) | ('class', Class) | ('const', Module, expr) |
        ('module', Module) | ('ext', dotted) | ('builtin', name) | None"""
        if name is None or _depth > 20:
            return None
        parts = name.split(".")
        first, rest = parts[0], parts[1:]
        cur = None
        if first in mod.funcs:
            cur = ("func", mod.funcs[first])
        elif first in mod.classes:
            cur = ("class", mod.classes[first])
        elif first in mod.imports:
            m, a = mod.imports[first]
            if m in self.modules or (a and f"{m}.{a}" in self.modules):
                if a is None:
                    cur = ("module", self.modules[m])
                elif f"{m}.{a}" in self.modules:
                    cur = ("module", self.modules[f"{m}.{a}"])
                else:
                    cur = self.resolve_global(self.modules[m], a, _depth + 1)
                    if cur is None:
                        cur = ("ext", f"{m}.{a}")
            else:
                cur = ("ext", m if a is None else f"{m}.{a}")
        elif first in mod.consts:
            cur = ("const", mod, mod.consts[first], first)
        elif first in BUILTIN_NAMES:
            cur = ("builtin", first)
        else:
            return None
        for attr in rest:
            if cur[0] == "module":
                nxt = self.resolve_global(cur[1], attr, _depth + 1)
                if nxt is None:
                    sub = f"{cur[1].name}.{attr}"
                    if sub in self.modules:
                        nxt = ("module", self.modules[sub])
                    else:
                        return None
                cur = nxt
            elif cur[0] == "ext":
                cur = ("ext", f"{cur[1]}.{attr}")
            elif cur[0] == "class":
                got = cur[1].lookup(attr)
                if got is None:
                    return ("classattr", cur[1], attr)
                if got[0] == "method":
                    cur = ("func", got[1])
                elif got[0] == "prop":
                    cur = ("prop", got[1], cur[1])
                else:
                    cur = ("classconst", got[2], got[1], attr)
            elif cur[0] == "builtin":
                cur = ("ext", f"{cur[1]}.{attr}")
            else:
                return None
        return cur

    def resolve_in(self, scope, name):
        """Resolve a bare name as seen from `scope` (Func or Module).
        Returns ('local', Func, name) if it is local to an enclosing function,
        else the module-global resolution."""
        f = scope if isinstance(scope, Func) else None
        mod = scope.module if isinstance(scope, Func) else scope
        while f is not None:
            if name in f.locals():
                if name in f.nested:
                    return ("func", f.nested[name])
                return ("local", f, name)
            f = f.parent
        return self.resolve_global(mod, name)

    def subclasses(self, cls, strict=True):
        out = [c for c in self.classes.values() if cls in c.mro and (c is not cls or not strict)]
        return sorted(out, key=lambda c: c.qualname)

    def func(self, qual):
        f = self.funcs.get(qual)
        if f is None:
            raise AnalysisError(f"anchor function vanished: {qual}")
        return f

    def cls(self, qual):
        c = self.classes.get(qual)
        if c is None:
            raise AnalysisError(f"anchor class vanished: {qual}")
        return c

    def find_class(self, name):
        got = [c for c in self.classes.values() if c.name == name]
        if len(got) != 1:
            raise AnalysisError(f"class {name}: expected exactly one definition, found {len(got)}")
        return got[0]

    def find_funcs(self, short):
        """All functions whose short qualname (after ::) equals `short`."""
        return [f for f in self.funcs.values() if f.short == short]

    def find_func(self, short):
        got = self.find_funcs(short)
        if len(got) != 1:
            raise AnalysisError(f"function {short}: expected exactly one definition, found {len(got)}")
        return got[0]

    def all_funcs(self):
        return sorted(self.funcs.values(), key=lambda f: f.qualname)

    def methods_named(self, name):
        out = []
        for c in self.classes.values():
            if name in c.methods:
                out.append(c.methods[name])
        return sorted(out, key=lambda f: f.qualname)

    def props_named(self, name):
        out = []
        for c in self.classes.values():
            if name in c.props:
                out.append((c, c.props[name]))
        return sorted(out, key=lambda t: t[0].qualname)


def norm(node):
    """Normalised source text of a node (position independent)."""
    if isinstance(node, list):
        return "; ".join(norm(n) for n in node)
    try:
        return ast.unparse(node)
    except Exception:  # pragma: no cover
        return ast.dump(node)


def head_line(node):
    """First line of a statement, normalised (for compound statements only
    the header)."""
    if isinstance(node, (ast.If, ast.While)):
        return f"{type(node).__name__.lower()} {norm(node.test)}:"
    if isinstance(node, ast.For):
        return f"for {norm(node.target)} in {norm(node.iter)}:"
    if isinstance(node, ast.Try):
        return "try:"
    if isinstance(node, ast.With):
        return "with " + ", ".join(norm(i) for i in node.items) + ":"
    if isinstance(node, (ast.FunctionDef, ast.ClassDef)):
        return f"def {node.name}"
    return norm(node)
