"""E2 (light types / provenance) and E3 (call graph) over the program model.

Abstract types (hashable tuples):
  ("inst", Class)      instance of a repo class
  ("cls", Class)       a repo class object (or a subclass of it)
  ("fn", Func)         a repo function object
  ("partial", Func)    functools.partial over a repo function
  ("b", name)          instance of a builtin type (list dict set tuple str int float bool none frozenset gen)
  ("ext", dotted)      an external callable / module attribute, e.g. ("ext","operator.ne")
  ("extinst", dotted)  result of calling an external class / function
Unknown is the empty frozenset.

Edge classes (kept apart, counted in evidence):
  resolved  - callee determined by name/type resolution
  cha       - method/property/operator resolved by name over all repo classes
  fallback  - call on a value of unknown origin: every repo __call__, Object.__new__/__init__
"""
import ast

from .model import Func, Class, Module, dotted, walk_own, norm, AnalysisError

UNK = frozenset()

BUILTIN_TYPE_CALLS = {
    "list": "list", "dict": "dict", "set": "set", "tuple": "tuple", "str": "str",
    "int": "int", "float": "float", "bool": "bool", "frozenset": "frozenset",
    "sorted": "list", "repr": "str", "len": "int", "enumerate": "gen", "zip": "gen",
    "map": "gen", "filter": "gen", "reversed": "gen", "iter": "gen", "range": "gen",
    "isinstance": "bool", "issubclass": "bool", "hasattr": "bool", "callable": "bool",
    "any": "bool", "all": "bool", "id": "int", "hash": "int", "dir": "list", "vars": "dict",
    "sum": "int", "abs": "float", "round": "float", "ord": "int", "chr": "str",
}

BUILTIN_METHODS = {
    "append", "extend", "insert", "update", "add", "pop", "remove", "clear", "setdefault", "sort", "reverse",
    "popitem", "discard", "items", "values", "keys", "get", "copy", "index", "count", "join", "format", "lower",
    "upper", "replace", "strip", "lstrip", "rstrip", "title", "split", "startswith", "endswith", "isalnum",
    "isdigit", "union", "intersection", "difference", "symmetric_difference", "issubset", "issuperset",
    "encode", "decode", "isidentifier", "isprintable", "isnumeric", "isalpha",
}

BUILTIN_METHOD_RET = {
    "join": "str", "format": "str", "lower": "str", "upper": "str", "replace": "str", "strip": "str",
    "lstrip": "str", "rstrip": "str", "title": "str", "split": "list", "items": "gen", "values": "gen",
    "keys": "gen", "copy": "same", "union": "set", "intersection": "set", "difference": "set",
    "symmetric_difference": "set", "startswith": "bool", "endswith": "bool", "isalnum": "bool",
    "isdigit": "bool", "issubset": "bool", "issuperset": "bool", "index": "int", "count": "int",
    "isidentifier": "bool", "isprintable": "bool", "isnumeric": "bool", "isalpha": "bool", "encode": "bytes",
    "decode": "str",
}

ANNOT_CONTAINERS = {
    "List": "list", "Dict": "dict", "Set": "set", "Tuple": "tuple", "Iterator": "gen",
    "Iterable": "gen", "DefaultDict": "dict", "list": "list", "dict": "dict", "set": "set",
    "tuple": "tuple", "str": "str", "int": "int", "float": "float", "bool": "bool",
    "Sequence": "list", "Mapping": "dict", "Generator": "gen",
}

OPERATOR_DUNDERS = {
    ast.Eq: "__eq__", ast.NotEq: "__eq__", ast.In: "__contains__", ast.NotIn: "__contains__",
}


class Site:
    """One call edge."""
    __slots__ = ("caller", "node", "callee", "kind", "recv", "args", "kwargs",
                 "star", "dstar", "edge", "note", "shift")

    def __init__(self, caller, node, callee, kind, recv=None, args=(), kwargs=None,
                 star=False, dstar=False, edge="resolved", note=""):
        self.caller = caller
        self.node = node
        self.callee = callee
        self.kind = kind  # call | ctor | new | getter | setter | op | closurecall
        self.recv = recv  # ast expr | "FRESH" | "CLS" | None
        self.args = list(args)
        self.kwargs = dict(kwargs or {})
        self.star = star
        self.dstar = dstar
        self.edge = edge
        self.note = note

    def bind(self):
        """Map callee parameter name -> list of caller arg exprs (ast), or the
        markers "FRESH"/"CLS"/("default", expr)/"UNKNOWN"/("pack", [exprs])."""
        callee = self.callee
        out = {}
        params = list(callee.params)
        pos_params = [p for p in params if p.kind in ("pos", "posonly")]
        vararg = next((p for p in params if p.kind == "vararg"), None)
        kwarg = next((p for p in params if p.kind == "kwarg"), None)
        actual = []
        if self.recv is not None:
            actual.append(self.recv)
        actual.extend(self.args)
        # positional
        extra = []
        for i, a in enumerate(actual):
            if i < len(pos_params):
                out[pos_params[i].name] = [a]
            else:
                extra.append(a)
        if vararg is not None:
            out[vararg.name] = [("pack", extra + (["UNKNOWN"] if self.star else []))]
        used_kw = set()
        for k, v in self.kwargs.items():
            p = callee.param(k)
            if p is not None and p.kind in ("pos", "kwonly"):
                out[k] = [v]
                used_kw.add(k)
        if kwarg is not None:
            rest = [v for k, v in self.kwargs.items() if k not in used_kw]
            out[kwarg.name] = [("pack", rest + (["UNKNOWN"] if self.dstar else []))]
        for p in params:
            if p.name in out:
                continue
            if self.star and p.kind in ("pos", "posonly"):
                out[p.name] = ["UNKNOWN"]
            elif self.dstar and p.kind in ("pos", "kwonly"):
                out[p.name] = ["UNKNOWN"] + ([("default", p.default)] if p.default is not None else [])
            elif p.default is not None:
                out[p.name] = [("default", p.default)]
            elif p.kind in ("vararg", "kwarg"):
                out[p.name] = [("pack", [])]
            else:
                out[p.name] = ["UNKNOWN"]
        return out

    def __repr__(self):
        return f"<Site {self.caller.short if isinstance(self.caller, Func) else self.caller}->{self.callee.short} {self.kind}/{self.edge}>"


class ExtCall:
    """A call (or operation) whose target is outside the repo."""
    __slots__ = ("caller", "node", "name", "recv", "args")

    def __init__(self, caller, node, name, recv=None, args=()):
        self.caller = caller
        self.node = node
        self.name = name  # e.g. "float", "re.search", ".append" (method on non-repo receiver)
        self.recv = recv
        self.args = list(args)


class Infer:
    def __init__(self, prog):
        self.prog = prog
        self._type_memo = {}
        self._ret_memo = {}
        self._ret_stack = set()
        self._bind_memo = {}
        self._sites_memo = {}
        self._param_args = None
        self._in_progress = set()
        self._depth = 0
        self._tainted = False
        self.call_classes = [m for c in prog.classes.values() for n, m in c.methods.items() if n == "__call__"]
        self.call_classes.sort(key=lambda f: f.qualname)
        self._meta_instances = None
        self.unknown_getattr = []
        self._stabilise()

    def _stabilise(self):
        """Build the who-passes-what index to a fixed point so that results do
        not depend on query order."""
        prev = None
        for _ in range(6):
            self._type_memo.clear()
            self._ret_memo.clear()
            self._sites_memo.clear()
            old = self._param_args
            self._build_param_args(old)
            sig = self._index_signature()
            if sig == prev:
                break
            prev = sig
        self._type_memo.clear()
        self._ret_memo.clear()
        self._sites_memo.clear()
        self.unknown_getattr = []

    def _index_signature(self):
        out = []
        for f, d in self._param_args.items():
            for pn, lst in d.items():
                out.append((f.qualname, pn, len(lst)))
        return sorted(out)

    # ------------------------------------------------------------ bindings
    def bindings(self, func):
        """name -> list of binding tuples for locals of `func`."""
        if func in self._bind_memo:
            return self._bind_memo[func]
        b = {}
        self._bind_memo[func] = b

        def add(name, item):
            b.setdefault(name, []).append(item)

        for p in func.params:
            add(p.name, ("param", p))

        def bind_target(t, src):
            if isinstance(t, ast.Name):
                add(t.id, src)
            elif isinstance(t, (ast.Tuple, ast.List)):
                for i, e in enumerate(t.elts):
                    if isinstance(e, ast.Starred):
                        bind_target(e.value, ("unpack_star", src))
                    else:
                        bind_target(e, ("unpack", src, i))

        for n in walk_own(func.body):
            if isinstance(n, ast.Assign):
                for t in n.targets:
                    bind_target(t, ("assign", n.value))
            elif isinstance(n, ast.AnnAssign) and n.value is not None:
                bind_target(n.target, ("assign", n.value))
                if isinstance(n.target, ast.Name):
                    add(n.target.id, ("annot", n.annotation))
            elif isinstance(n, ast.AugAssign):
                bind_target(n.target, ("aug", n.value))
            elif isinstance(n, (ast.For, ast.AsyncFor)):
                bind_target(n.target, ("iter", n.iter))
            elif isinstance(n, ast.comprehension):
                bind_target(n.target, ("iter", n.iter))
            elif isinstance(n, (ast.With, ast.AsyncWith)):
                for it in n.items:
                    if it.optional_vars is not None:
                        bind_target(it.optional_vars, ("with", it.context_expr))
            elif isinstance(n, ast.ExceptHandler) and n.name:
                add(n.name, ("exc", n.type))
            elif isinstance(n, ast.NamedExpr):
                bind_target(n.target, ("assign", n.value))
            elif isinstance(n, (ast.FunctionDef, ast.AsyncFunctionDef)):
                if n.name in func.nested:
                    add(n.name, ("def", func.nested[n.name]))
        return b

    # --------------------------------------------------------------- types
    def ann_type(self, ann, mod, elem=False):
        """Type denoted by an annotation expression (instances thereof)."""
        if ann is None:
            return UNK
        if isinstance(ann, ast.Constant) and isinstance(ann.value, str):
            try:
                ann = ast.parse(ann.value, mode="eval").body
            except SyntaxError:
                return UNK
        if isinstance(ann, ast.Constant) and ann.value is None:
            return frozenset([("b", "none")])
        if isinstance(ann, ast.Subscript):
            head = dotted(ann.value)
            hname = head.split(".")[-1] if head else None
            sl = ann.slice
            items = sl.elts if isinstance(sl, ast.Tuple) else [sl]
            if hname in ("Optional", "Maybe", "Union", "ClassVar", "Final"):
                out = set()
                for it in items:
                    out |= self.ann_type(it, mod)
                return frozenset(out)
            if hname == "Type":
                out = set()
                for it in items:
                    for t in self.ann_type(it, mod):
                        if t[0] == "inst":
                            out.add(("cls", t[1]))
                return frozenset(out)
            if hname in ANNOT_CONTAINERS:
                return frozenset([("b", ANNOT_CONTAINERS[hname])])
            # Generic repo class e.g. Element[T]
            return self.ann_type(ann.value, mod)
        d = dotted(ann)
        if d is None:
            return UNK
        r = self.prog.resolve_global(mod, d)
        if r is None:
            # may be defined later in the same module / circular import
            last = d.split(".")[-1]
            cands = [c for c in self.prog.classes.values() if c.name == last]
            if len(cands) == 1:
                return frozenset([("inst", cands[0])])
            return UNK
        if r[0] == "class":
            return frozenset([("inst", r[1])])
        if r[0] == "builtin" and r[1] in ANNOT_CONTAINERS:
            return frozenset([("b", ANNOT_CONTAINERS[r[1]])])
        if r[0] == "ext":
            last = r[1].split(".")[-1]
            if last in ANNOT_CONTAINERS:
                return frozenset([("b", ANNOT_CONTAINERS[last])])
        if r[0] == "const":
            # type alias
            return self.ann_type(r[2], r[1])
        return UNK

    def ann_elem_type(self, ann, mod):
        """Element type of a container annotation (List[X] -> X, Dict[K,V] -> V)."""
        if ann is None:
            return UNK
        if isinstance(ann, ast.Constant) and isinstance(ann.value, str):
            try:
                ann = ast.parse(ann.value, mode="eval").body
            except SyntaxError:
                return UNK
        if isinstance(ann, ast.Subscript):
            head = dotted(ann.value)
            hname = head.split(".")[-1] if head else None
            sl = ann.slice
            items = sl.elts if isinstance(sl, ast.Tuple) else [sl]
            if hname in ("Optional", "Maybe", "Union", "ClassVar"):
                out = set()
                for it in items:
                    out |= self.ann_elem_type(it, mod)
                return frozenset(out)
            if hname in ("List", "Set", "Iterator", "Iterable", "Sequence", "list", "set", "Generator"):
                return self.ann_type(items[0], mod)
            if hname in ("Dict", "DefaultDict", "Mapping", "dict") and len(items) == 2:
                return self.ann_type(items[1], mod)
        return UNK

    def type_of(self, expr, scope):
        key = (id(expr), id(scope))
        if key in self._type_memo:
            return self._type_memo[key]
        if key in self._in_progress:
            self._tainted = True
            return UNK
        self._in_progress.add(key)
        self._depth += 1
        try:
            t = self._type_of(expr, scope)
        finally:
            self._in_progress.discard(key)
            self._depth -= 1
        if self._depth == 0:
            self._tainted = False
            self._type_memo[key] = t
        elif not self._tainted:
            self._type_memo[key] = t
        return t

    def _mod(self, scope):
        return scope.module if isinstance(scope, Func) else scope

    def _type_of(self, e, scope):
        prog = self.prog
        mod = self._mod(scope)
        if isinstance(e, ast.Constant):
            v = e.value
            if v is None:
                return frozenset([("b", "none")])
            return frozenset([("b", type(v).__name__)])
        if isinstance(e, (ast.List, ast.ListComp)):
            return frozenset([("b", "list")])
        if isinstance(e, (ast.Dict, ast.DictComp)):
            return frozenset([("b", "dict")])
        if isinstance(e, (ast.Set, ast.SetComp)):
            return frozenset([("b", "set")])
        if isinstance(e, ast.Tuple):
            return frozenset([("b", "tuple")])
        if isinstance(e, ast.GeneratorExp):
            return frozenset([("b", "gen")])
        if isinstance(e, ast.JoinedStr):
            return frozenset([("b", "str")])
        if isinstance(e, ast.Compare):
            return frozenset([("b", "bool")])
        if isinstance(e, ast.UnaryOp) and isinstance(e.op, ast.Not):
            return frozenset([("b", "bool")])
        if isinstance(e, ast.BoolOp):
            out = set()
            for v in e.values:
                out |= self.type_of(v, scope)
            return frozenset(out)
        if isinstance(e, ast.IfExp):
            return self.type_of(e.body, scope) | self.type_of(e.orelse, scope)
        if isinstance(e, ast.Lambda):
            f = self.func_of_node(e)
            return frozenset([("fn", f)]) if f else UNK
        if isinstance(e, ast.NamedExpr):
            return self.type_of(e.value, scope)
        if isinstance(e, ast.Starred):
            return self.type_of(e.value, scope)
        if isinstance(e, ast.BinOp):
            lt = self.type_of(e.left, scope)
            rt = self.type_of(e.right, scope)
            both = lt | rt
            out = set(t for t in both if t[0] == "b")
            return frozenset(out)
        if isinstance(e, ast.Name):
            return self._name_type(e.id, scope)
        if isinstance(e, ast.Attribute):
            return self._attr_type(e, scope)
        if isinstance(e, ast.Subscript):
            return self._subscript_type(e, scope)
        if isinstance(e, ast.Call):
            return self._call_type(e, scope)
        if isinstance(e, ast.Await):
            return UNK
        return UNK

    def func_of_node(self, node):
        for f in self.prog.funcs.values():
            if f.node is node:
                return f
        return None

    def _name_type(self, name, scope):
        prog = self.prog
        f = scope if isinstance(scope, Func) else None
        while f is not None:
            if name in f.locals():
                return self._local_type(f, name, scope)
            f = f.parent
        r = prog.resolve_global(self._mod(scope), name)
        return self._resolved_type(r)

    def _resolved_type(self, r):
        if r is None:
            return UNK
        if r[0] == "func":
            return frozenset([("fn", r[1])])
        if r[0] == "class":
            return frozenset([("cls", r[1])])
        if r[0] == "const":
            return self.type_of(r[2], r[1])
        if r[0] == "classconst":
            return self.type_of(r[2], r[1].module)
        if r[0] == "ext":
            return frozenset([("ext", r[1])])
        if r[0] == "builtin":
            return frozenset([("ext", r[1])])
        if r[0] == "module":
            return frozenset([("mod", r[1].name)])
        return UNK

    def _local_type(self, f, name, scope):
        out = set()
        for b in self.bindings(f).get(name, []):
            out |= self._binding_type(f, name, b)
        return frozenset(out)

    def _binding_type(self, f, name, b):
        kind = b[0]
        if kind == "param":
            return self._param_type(f, b[1])
        if kind in ("assign", "aug"):
            return self.type_of(b[1], f)
        if kind == "annot":
            return self.ann_type(b[1], f.module)
        if kind == "def":
            return frozenset([("fn", b[1])])
        if kind == "iter":
            return self.elem_type_of(b[1], f)
        if kind == "unpack":
            src, idx = b[1], b[2]
            if src[0] == "iter":
                rows, rscope = self._literal_rows(src[1], f)
                if rows is not None:
                    out = set()
                    for r in rows:
                        if isinstance(r, (ast.Tuple, ast.List)) and idx < len(r.elts):
                            out |= self.type_of(r.elts[idx], rscope)
                        else:
                            return UNK
                    return frozenset(out)
                # .items() of a dict with known value type -> idx 1
                it = src[1]
                if (isinstance(it, ast.Call) and isinstance(it.func, ast.Attribute) and it.func.attr == "items"
                        and not it.args and isinstance(it.func.value, ast.Name) and idx in (0, 1)):
                    # a literal dispatch table {keyword: function}: local (assigned once) or module-level constant
                    dn = it.func.value.id
                    disp, dscope = None, f
                    if isinstance(f, Func) and dn in f.locals():
                        assigned = [b_[1] for b_ in self.bindings(f).get(dn, []) if b_[0] in ("assign", "aug")]
                        others = [b_ for b_ in self.bindings(f).get(dn, []) if b_[0] not in ("assign", "annot")]
                        if len(assigned) == 1 and not others:
                            disp = assigned[0]
                    else:
                        r_ = self.prog.resolve_global(self._mod(f), dn)
                        if r_ and r_[0] == "const":
                            disp, dscope = r_[2], r_[1]
                    if isinstance(disp, ast.Dict) and disp.keys and all(k_ is not None for k_ in disp.keys):
                        out = set()
                        for e_ in (disp.keys if idx == 0 else disp.values):
                            out |= self.type_of(e_, dscope)
                        return frozenset(out)
                if (isinstance(it, ast.Call) and isinstance(it.func, ast.Attribute)
                        and it.func.attr == "items" and idx == 1):
                    return self.elem_type_of(it.func.value, f)
                if (isinstance(it, ast.Call) and dotted(it.func) == "enumerate" and idx == 1 and it.args):
                    return self.elem_type_of(it.args[0], f)
                if isinstance(it, ast.Call) and dotted(it.func) == "enumerate" and idx == 0:
                    return frozenset([("b", "int")])
                return UNK
            if src[0] == "assign":
                v = src[1]
                if isinstance(v, (ast.Tuple, ast.List)) and idx < len(v.elts):
                    return self.type_of(v.elts[idx], f)
                if isinstance(v, ast.Call):
                    out = set()
                    for s in self.call_sites_of(v, f):
                        ann = getattr(s.callee.node, "returns", None)
                        if isinstance(ann, ast.Subscript) and dotted(ann.value) in ("Tuple", "typing.Tuple", "tuple"):
                            elts = ann.slice.elts if isinstance(ann.slice, ast.Tuple) else [ann.slice]
                            if idx < len(elts):
                                out |= self.ann_type(elts[idx], s.callee.module)
                    return frozenset(out)
                return UNK
            return UNK
        if kind == "with":
            return UNK
        if kind == "exc":
            return UNK
        return UNK

    def _literal_rows(self, it, scope=None):
        """(rows, scope in which they are typed) of a literal table, also when
        it lives in a module-level constant."""
        if isinstance(it, (ast.Tuple, ast.List)):
            return it.elts, scope
        if isinstance(it, ast.Name) and scope is not None:
            f = scope if isinstance(scope, Func) else None
            while f is not None:
                if it.id in f.locals():
                    return None, scope
                f = f.parent
            r = self.prog.resolve_global(self._mod(scope), it.id)
            if r and r[0] == "const" and isinstance(r[2], (ast.Tuple, ast.List)):
                return r[2].elts, r[1]
        return None, scope

    def _param_type(self, f, p):
        sp = f.self_param()
        if sp == p.name and f.cls is not None:
            c = f.cls
            is_meta = any(b == "type" for b in c.ext_bases())
            if f.kind == "classmethod" or f.name in ("__new__", "__init_subclass__", "__prepare__"):
                if is_meta and f.name in ("__new__", "__prepare__"):
                    return frozenset([("ext", "metaclass")])
                return frozenset([("cls", c)])
            return frozenset([("inst", c)])
        t = self.ann_type(p.annotation, f.module)
        if p.kind == "vararg":
            return frozenset([("b", "tuple")])
        if p.kind == "kwarg":
            return frozenset([("b", "dict")])
        if t:
            return t
        # fall back to what callers pass (context-insensitive)
        out = set()
        for scope, a in self.param_args(f, p.name):
            if isinstance(a, Func):
                out.add(("rawfn", a))
            elif isinstance(a, ast.AST):
                out |= self.type_of(a, scope)
        if p.default is not None and not out:
            out |= self.type_of(p.default, f.parent or f.module)
        return frozenset(out)

    def elem_type_of(self, e, scope):
        """Type of the elements obtained by iterating / indexing `e`."""
        key = ("elem", id(e), id(scope))
        if key in self._in_progress:
            return UNK
        self._in_progress.add(key)
        try:
            return self._elem_type_of(e, scope)
        finally:
            self._in_progress.discard(key)

    def _elem_type_of(self, e, scope):
        mod = self._mod(scope)
        if isinstance(e, (ast.List, ast.Tuple, ast.Set)):
            out = set()
            for x in e.elts:
                out |= self.type_of(x, scope)
            return frozenset(out)
        if isinstance(e, ast.ListComp) or isinstance(e, ast.GeneratorExp) or isinstance(e, ast.SetComp):
            return self.type_of(e.elt, scope)
        if isinstance(e, ast.Call):
            d = dotted(e.func)
            if d in ("list", "tuple", "sorted", "iter", "reversed", "set", "filter") and e.args:
                return self.elem_type_of(e.args[-1] if d == "filter" else e.args[0], scope)
            if isinstance(e.func, ast.Attribute) and e.func.attr == "values" and not e.args:
                return self.elem_type_of(e.func.value, scope)
            # repo call with annotated return
            for s in self.call_sites_of(e, scope):
                if s.kind in ("call",):
                    r = self.ann_elem_type(getattr(s.callee.node, "returns", None), s.callee.module)
                    if r:
                        return r
            return UNK
        if isinstance(e, ast.Attribute):
            # property getter / annotated field
            out = set()
            for t in self.type_of(e.value, scope):
                if t[0] in ("inst", "cls"):
                    got = self._lookup_attr(t, e.attr)
                    for g in got:
                        if g[0] == "meta":
                            g = g[1:]
                        if g[0] == "prop" and "get" in g[1]:
                            fn = g[1]["get"]
                            out |= self.ann_elem_type(fn.node.returns, fn.module)
                        elif g[0] == "annot":
                            out |= self.ann_elem_type(g[1], g[2].module)
            out |= self._field_elem_stores(e.attr)
            return frozenset(out)
        if isinstance(e, ast.Name):
            f = scope if isinstance(scope, Func) else None
            while f is not None:
                if e.id in f.locals():
                    out = set()
                    for b in self.bindings(f).get(e.id, []):
                        if b[0] == "param":
                            out |= self.ann_elem_type(b[1].annotation, f.module)
                        elif b[0] == "assign":
                            out |= self.elem_type_of(b[1], f)
                        elif b[0] == "annot":
                            out |= self.ann_elem_type(b[1], f.module)
                    return frozenset(out)
                f = f.parent
            return UNK
        if isinstance(e, ast.BinOp) and isinstance(e.op, ast.Add):
            return self.elem_type_of(e.left, scope) | self.elem_type_of(e.right, scope)
        if isinstance(e, ast.BoolOp):
            out = set()
            for v in e.values:
                out |= self.elem_type_of(v, scope)
            return frozenset(out)
        return UNK

    def _field_elem_stores(self, attr):
        """Types of values stored INTO the container held in field `attr`
        anywhere in the package: `<x>.attr[k] = v`, `<x>.attr.append(v)`."""
        key = ("fieldelems", attr)
        if key in self._type_memo:
            return self._type_memo[key]
        self._type_memo[key] = UNK
        out = set()
        for f in list(self.prog.funcs.values()):
            for n in walk_own(f.body):
                if isinstance(n, ast.Assign):
                    for t in n.targets:
                        if (isinstance(t, ast.Subscript) and isinstance(t.value, ast.Attribute)
                                and t.value.attr == attr):
                            out |= self.type_of(n.value, f)
                elif (isinstance(n, ast.Call) and isinstance(n.func, ast.Attribute)
                      and n.func.attr in ("append", "add", "insert") and isinstance(n.func.value, ast.Attribute)
                      and n.func.value.attr == attr and n.args):
                    out |= self.type_of(n.args[-1], f)
        res = frozenset(out)
        if self._tainted and self._depth > 0:
            del self._type_memo[key]
        else:
            self._type_memo[key] = res
        return res

    def possible_strings(self, e, scope, _depth=0):
        """Finite set of strings an expression may evaluate to, or None."""
        if _depth > 6:
            return None
        if isinstance(e, ast.Constant) and isinstance(e.value, str):
            return {e.value}
        if isinstance(e, ast.Attribute) and e.attr == "name":
            # param.name where param iterates inspect.signature(F).parameters
            funcs = self.signature_funcs(e.value, scope)
            if funcs is not None:
                return {p.name for f in funcs for p in f.params}
            return None
        if isinstance(e, ast.Name):
            f = scope if isinstance(scope, Func) else None
            while f is not None:
                if e.id in f.locals():
                    out = set()
                    for b in self.bindings(f).get(e.id, []):
                        got = self._binding_strings(b, f, _depth)
                        if got is None:
                            return None
                        out |= got
                    return out
                f = f.parent
            r = self.prog.resolve_global(self._mod(scope), e.id)
            if r and r[0] == "const":
                return self.possible_strings(r[2], r[1], _depth + 1)
            return None
        return None

    def possible_segments(self, e, scope, sep, _depth=0, _seen=None):
        """Set of atomic segments such that the value of `e` (a string, or a
        list of strings) is made of sep-joined members of the set; or None."""
        _seen = _seen if _seen is not None else set()
        if _depth > 12:
            return None
        if isinstance(e, ast.Constant) and isinstance(e.value, str):
            return set(e.value.split(sep))
        if isinstance(e, (ast.List, ast.Tuple)):
            out = set()
            for x in e.elts:
                got = self.possible_segments(x, scope, sep, _depth + 1, _seen)
                if got is None:
                    return None
                out |= got
            return out
        if isinstance(e, ast.Call) and isinstance(e.func, ast.Attribute):
            if e.func.attr == "join" and isinstance(e.func.value, ast.Constant) and e.func.value.value == sep and e.args:
                return self.possible_segments(e.args[0], scope, sep, _depth + 1, _seen)
            if e.func.attr in ("split", "partition", "rpartition", "rsplit") and e.args and isinstance(e.args[0], ast.Constant) \
                    and e.args[0].value == sep:
                got = self.possible_segments(e.func.value, scope, sep, _depth + 1, _seen)
                # partition also yields the separator itself (and empty strings), which are not attribute names
                return got
        if isinstance(e, ast.Name):
            f = scope if isinstance(scope, Func) else None
            while f is not None:
                if e.id in f.locals():
                    key = (f, e.id)
                    if key in _seen:
                        return set()
                    _seen.add(key)
                    out = set()
                    for b in self.bindings(f).get(e.id, []):
                        got = None
                        if b[0] == "param":
                            srcs = self.param_args(f, b[1].name)
                            if not srcs:
                                return None
                            got = set()
                            for sc, a in srcs:
                                if not isinstance(a, ast.AST):
                                    return None
                                g2 = self.possible_segments(a, sc, sep, _depth + 1, _seen)
                                if g2 is None:
                                    return None
                                got |= g2
                        elif b[0] in ("assign",):
                            got = self.possible_segments(b[1], f, sep, _depth + 1, _seen)
                        elif b[0] == "iter":
                            got = self.possible_segments(b[1], f, sep, _depth + 1, _seen)
                        elif b[0] in ("unpack", "unpack_star"):
                            src = b[1]
                            if src[0] in ("assign", "iter"):
                                got = self.possible_segments(src[1], f, sep, _depth + 1, _seen)
                        if got is None:
                            return None
                        out |= got
                    return out
                f = f.parent
            r = self.prog.resolve_global(self._mod(scope), e.id)
            if r and r[0] == "const":
                return self.possible_segments(r[2], r[1], sep, _depth + 1, _seen)
        return None

    def _binding_strings(self, b, f, depth):
        if b[0] == "unpack" and b[1][0] == "assign":
            v = b[1][1]
            if (isinstance(v, ast.Call) and isinstance(v.func, ast.Attribute) and v.func.attr in ("split", "partition", "rpartition", "rsplit")
                    and v.args and isinstance(v.args[0], ast.Constant) and isinstance(v.args[0].value, str)):
                return self.possible_segments(v.func.value, f, v.args[0].value)
        if b[0] == "param":
            out = set()
            srcs = self.param_args(f, b[1].name)
            if not srcs:
                return None
            for scope, a in srcs:
                if not isinstance(a, ast.AST):
                    return None
                got = self.possible_strings(a, scope, depth + 1)
                if got is None:
                    return None
                out |= got
            return out
        if b[0] == "assign":
            return self.possible_strings(b[1], f, depth + 1)
        if b[0] == "iter":
            return self.iter_strings(b[1], f, depth + 1)
        if b[0] == "unpack" and b[1][0] == "iter":
            rows, rscope = self._literal_rows(b[1][1], f)
            if rows is not None:
                out = set()
                for r in rows:
                    if isinstance(r, (ast.Tuple, ast.List)) and b[2] < len(r.elts):
                        got = self.possible_strings(r.elts[b[2]], rscope, depth + 1)
                        if got is None:
                            return None
                        out |= got
                    else:
                        return None
                return out
        return None

    def iter_strings(self, it, scope, depth=0):
        """Strings obtained by iterating `it`."""
        if isinstance(it, (ast.Tuple, ast.List, ast.Set)):
            out = set()
            for x in it.elts:
                got = self.possible_strings(x, scope, depth + 1)
                if got is None:
                    return None
                out |= got
            return out
        if isinstance(it, ast.Attribute):
            # X.keywords style class constants: union over every class defining it
            vals = set()
            found = False
            for c in self.prog.classes.values():
                if it.attr in c.consts:
                    got = self.iter_strings(c.consts[it.attr], c.module, depth + 1)
                    if got is None:
                        if isinstance(c.consts[it.attr], ast.Call) and not c.consts[it.attr].args:
                            got = set()
                        else:
                            return None
                    vals |= got
                    found = True
            return vals if found else None
        if isinstance(it, ast.Name):
            r = self.prog.resolve_in(scope, it.id)
            if r and r[0] == "const":
                return self.iter_strings(r[2], r[1], depth + 1)
            if r and r[0] == "local":
                out = set()
                for b in self.bindings(r[1]).get(it.id, []):
                    if b[0] == "assign":
                        got = self.iter_strings(b[1], r[1], depth + 1)
                        if got is None:
                            return None
                        out |= got
                    else:
                        return None
                return out
        if isinstance(it, ast.Call) and dotted(it.func) in ("list", "tuple", "sorted", "set") and len(it.args) == 1:
            return self.iter_strings(it.args[0], scope, depth + 1)
        return None

    def signature_funcs(self, e, scope, _depth=0):
        """If `e` iterates inspect.signature(F).parameters[.values()], the
        possible F's (list of Func), else None."""
        if _depth > 16:
            return None
        if isinstance(e, ast.Name):
            r = self.prog.resolve_in(scope, e.id)
            if r and r[0] == "local":
                out = []
                for b in self.bindings(r[1]).get(e.id, []):
                    src = None
                    if b[0] == "iter":
                        src = b[1]
                    elif b[0] == "assign":
                        src = b[1]
                    else:
                        return None
                    got = self.signature_funcs(src, r[1], _depth + 1)
                    if got is None:
                        return None
                    out += got
                return out
            return None
        if isinstance(e, ast.Subscript):
            return self.signature_funcs(e.value, scope, _depth + 1)
        if isinstance(e, (ast.ListComp, ast.GeneratorExp)) and len(e.generators) == 1 and isinstance(e.elt, ast.Name) \
                and isinstance(e.generators[0].target, ast.Name) and e.generators[0].target.id == e.elt.id:
            # a filtered selection of the parameters: [param for param in <parameters> if ...]
            return self.signature_funcs(e.generators[0].iter, scope, _depth + 1)
        if isinstance(e, ast.Call):
            d = dotted(e.func)
            if d in ("list", "tuple", "iter", "sorted", "reversed") and e.args:
                return self.signature_funcs(e.args[0], scope, _depth + 1)
            if d == "filter" and len(e.args) == 2:
                return self.signature_funcs(e.args[1], scope, _depth + 1)
            if isinstance(e.func, ast.Attribute) and e.func.attr == "values":
                return self.signature_funcs(e.func.value, scope, _depth + 1)
            # a repo helper that returns the signature parameters
            for site in self.call_sites_of(e, scope):
                if site.kind == "call" and site.callee is not scope:
                    out = []
                    okall = True
                    for n in walk_own(site.callee.body):
                        if isinstance(n, ast.Return) and n.value is not None:
                            got = self.signature_funcs(n.value, site.callee, _depth + 1)
                            if got is None:
                                okall = False
                            else:
                                out += got
                    if okall and out:
                        return out
            if d in ("inspect.signature", "signature") and e.args:
                out = []
                for t in self.type_of(e.args[0], scope):
                    if t[0] == "fn":
                        out.append(t[1])
                        # overriding definitions in subclasses
                        f = t[1]
                        if f.cls is not None:
                            for s in self.prog.subclasses(f.cls):
                                if f.name in s.methods:
                                    out.append(s.methods[f.name])
                return out or None
        if isinstance(e, ast.Attribute) and e.attr == "parameters":
            return self.signature_funcs(e.value, scope, _depth + 1)
        return None

    def _lookup_attr(self, t, attr):
        """All meanings of `attr` on abstract type t (inst/cls)."""
        out = []
        kind, c = t
        if kind == "inst":
            got = c.lookup(attr)
            if got:
                out.append(got)
            for k in c.mro:
                if attr in k.annots:
                    out.append(("annot", k.annots[attr], k))
                    break
            # overrides in subclasses
            for s in self.prog.subclasses(c):
                if attr in s.props:
                    out.append(("prop", s.props[attr], s))
                if attr in s.methods:
                    out.append(("method", s.methods[attr], s))
        else:
            got = c.lookup(attr)
            if got:
                out.append(got)
            for s in self.prog.subclasses(c):
                if attr in s.props:
                    out.append(("prop", s.props[attr], s))
                if attr in s.methods:
                    out.append(("method", s.methods[attr], s))
                if attr in s.consts:
                    out.append(("const", s.consts[attr], s))
            meta = c.metaclass
            if meta is not None:
                g = meta.lookup(attr)
                if g:
                    out.append(("meta",) + g)
        return out

    def _attr_type(self, e, scope):
        if e.attr in ("__name__", "__qualname__", "__module__"):
            return frozenset([("b", "str")])
        base = self.type_of(e.value, scope)
        out = set()
        for t in base:
            if t[0] == "mod":
                m = self.prog.modules.get(t[1])
                if m:
                    out |= self._resolved_type(self.prog.resolve_global(m, e.attr))
                continue
            if t[0] == "ext":
                out.add(("ext", f"{t[1]}.{e.attr}"))
                continue
            if t[0] == "b" and e.attr in BUILTIN_METHODS:
                out.add(("ext", f"<{t[1]}>.{e.attr}"))
                continue
            if t[0] in ("inst", "cls"):
                for g in self._lookup_attr(t, e.attr):
                    if g[0] == "meta":
                        g2 = g[1:]
                        if g2[0] == "prop" and "get" in g2[1]:
                            out |= self.ret_type(g2[1]["get"])
                        elif g2[0] == "method":
                            out.add(("fn", g2[1]))
                        elif g2[0] == "const":
                            out |= self.type_of(g2[1], g2[2].module)
                    elif g[0] == "prop":
                        if "get" in g[1]:
                            out |= self.ret_type(g[1]["get"])
                    elif g[0] == "method":
                        out.add(("fn", g[1]))
                    elif g[0] == "const":
                        out |= self.type_of(g[1], g[2].module)
                    elif g[0] == "annot":
                        out |= self.ann_type(g[1], g[2].module)
                if t[0] == "inst":
                    out |= self._field_type(t[1], e.attr)
        if e.attr == "__class__":
            for t in base:
                if t[0] == "inst":
                    out.add(("cls", t[1]))
        return frozenset(out)

    def _field_type(self, cls, attr):
        """Join over `self.attr = rhs` stores in cls's MRO constructors."""
        key = ("field", cls, attr)
        if key in self._type_memo:
            return self._type_memo[key]
        self._type_memo[key] = UNK
        out = set()
        for c in cls.mro:
            for m in c.methods.values():
                sp = m.self_param()
                if not sp:
                    continue
                for n in walk_own(m.body):
                    tgt = None
                    if isinstance(n, ast.Assign):
                        for t in n.targets:
                            if (isinstance(t, ast.Attribute) and isinstance(t.value, ast.Name)
                                    and t.value.id == sp and t.attr == attr):
                                out |= self.type_of(n.value, m)
                    elif isinstance(n, ast.AnnAssign) and n.value is not None:
                        t = n.target
                        if (isinstance(t, ast.Attribute) and isinstance(t.value, ast.Name)
                                and t.value.id == sp and t.attr == attr):
                            out |= self.ann_type(n.annotation, m.module) or self.type_of(n.value, m)
        res = frozenset(out)
        if self._tainted and self._depth > 0:
            del self._type_memo[key]
        else:
            self._type_memo[key] = res
        return res

    def _subscript_type(self, e, scope):
        # literal dict display indexed: {True: A(), False: B()}[x]
        if isinstance(e.value, ast.Dict):
            out = set()
            for v in e.value.values:
                out |= self.type_of(v, scope)
            return frozenset(out)
        if isinstance(e.value, ast.Name):
            r = self.prog.resolve_in(scope, e.value.id)
            if r and r[0] == "const" and isinstance(r[2], ast.Dict):
                out = set()
                for v in r[2].values:
                    out |= self.type_of(v, r[1])
                return frozenset(out)
        base = self.type_of(e.value, scope)
        out = set()
        for t in base:
            if t[0] == "inst":
                g = t[1].lookup("__getitem__")
                if g and g[0] == "method":
                    out |= self.ret_type(g[1])
        if isinstance(e.slice, ast.Slice):
            return frozenset(t for t in base if t[0] == "b")
        out |= self.elem_type_of(e.value, scope)
        return frozenset(out)

    def ret_type(self, f):
        if f in self._ret_memo:
            return self._ret_memo[f]
        if f in self._ret_stack:
            self._tainted = True
            return UNK
        self._ret_stack.add(f)
        try:
            ann = getattr(f.node, "returns", None)
            t = self.ann_type(ann, f.module) if ann is not None else UNK
            if not t or all(x[0] == "b" for x in t):
                out = set(t)
                is_gen = False
                for n in walk_own(f.body):
                    if isinstance(n, (ast.Yield, ast.YieldFrom)):
                        is_gen = True
                    if isinstance(n, ast.Return) and n.value is not None:
                        out |= self.type_of(n.value, f)
                if is_gen:
                    out = {("b", "gen")}
                t = frozenset(out)
        finally:
            self._ret_stack.discard(f)
        if not self._tainted or self._depth == 0:
            self._ret_memo[f] = t
        return t

    def getattr_wrapper(self, call, scope):
        """`h(obj, "name")` where the repository function h is exactly `return getattr(<param>, <param>[, D])`:
        -> (object expression, key expression, default expression or None, h); else None."""
        if not isinstance(call.func, ast.Name) or call.keywords or any(isinstance(a, ast.Starred) for a in call.args):
            return None
        r = self.prog.resolve_in(scope, call.func.id) if isinstance(scope, Func) else self.prog.resolve_global(scope, call.func.id)
        if not (r and r[0] == "func"):
            return None
        h = r[1]
        body = [st for st in h.body if not (isinstance(st, ast.Expr) and isinstance(st.value, ast.Constant))]
        if len(body) != 1 or not isinstance(body[0], ast.Return) or not isinstance(body[0].value, ast.Call):
            return None
        g = body[0].value
        names = [p.name for p in h.params]
        if dotted(g.func) != "getattr" or len(g.args) not in (2, 3) or g.keywords or len(call.args) != len(names):
            return None
        if not (isinstance(g.args[0], ast.Name) and isinstance(g.args[1], ast.Name) and g.args[0].id in names and g.args[1].id in names):
            return None
        amap = dict(zip(names, call.args))
        default = g.args[2] if len(g.args) == 3 else None
        if default is not None and any(isinstance(x, ast.Name) and x.id in names for x in ast.walk(default)):
            return None
        return amap[g.args[0].id], amap[g.args[1].id], default, h

    def _call_type(self, e, scope):
        d = dotted(e.func)
        gw = self.getattr_wrapper(e, scope)
        if gw is not None and isinstance(gw[1], ast.Constant) and isinstance(gw[1].value, str):
            fake = ast.Attribute(value=gw[0], attr=gw[1].value, ctx=ast.Load())
            t = self._attr_type(fake, scope)
            if gw[2] is not None:
                t = t | self.type_of(gw[2], gw[3])
            return t
        ft = self.type_of(e.func, scope)
        out = set()
        if d == "type" and len(e.args) == 1:
            for t in self.type_of(e.args[0], scope):
                if t[0] == "inst":
                    out.add(("cls", t[1]))
            return frozenset(out)
        if d == "super":
            return frozenset([("super", scope.cls)]) if isinstance(scope, Func) and scope.cls else UNK
        if d == "cast" and len(e.args) == 2:
            return self.ann_type(e.args[0], self._mod(scope)) or self.type_of(e.args[1], scope)
        if d == "getattr" and len(e.args) >= 2 and isinstance(e.args[1], ast.Constant):
            fake = ast.Attribute(value=e.args[0], attr=e.args[1].value, ctx=ast.Load())
            t = self._attr_type(fake, scope)
            if len(e.args) == 3:
                t = t | self.type_of(e.args[2], scope)
            return t
        if d in ("partial", "functools.partial") and e.args:
            for t in self.type_of(e.args[0], scope):
                if t[0] == "fn":
                    out.add(("partial", t[1]))
                elif t[0] == "ext":
                    out.add(("ext", t[1]))
            return frozenset(out)
        for t in ft:
            if t[0] == "rawfn":
                out |= self.ret_type(t[1])
            elif t[0] == "fn":
                f = t[1]
                wrapped = self._decorated_type(f)
                if wrapped is not None:
                    for w in wrapped:
                        if w[0] == "fn":
                            out |= self.ret_type(w[1])
                            # wrapper returning function(*a) -> also the original's type
                    out |= self.ret_type(f)
                else:
                    out |= self.ret_type(f)
            elif t[0] == "partial":
                out |= self.ret_type(t[1])
            elif t[0] == "cls":
                c = t[1]
                if any(b == "type" for b in c.ext_bases()):
                    # calling a metaclass creates a class
                    inst = [k for k in self.prog.classes.values() if k.metaclass is c and c not in k.mro]
                    for k in inst:
                        out.add(("cls", k))
                    out.add(("inst", c))
                else:
                    out.add(("inst", c))
            elif t[0] == "inst":
                c = t[1]
                if any(b == "type" for b in c.ext_bases()):
                    for k in self.prog.classes.values():
                        if k.metaclass is c and c not in k.mro:
                            out.add(("inst", k))
                g = c.lookup("__call__")
                if g and g[0] == "method":
                    out |= self.ret_type(g[1])
            elif t[0] == "ext":
                name = t[1]
                if name in BUILTIN_TYPE_CALLS:
                    out.add(("b", BUILTIN_TYPE_CALLS[name]))
                elif name.startswith("<") and ">." in name:
                    recv_kind, meth = name[1:].split(">.", 1)
                    if meth in BUILTIN_METHOD_RET:
                        r = BUILTIN_METHOD_RET[meth]
                        out.add(("b", recv_kind if r == "same" else r))
                else:
                    out.add(("extinst", name))
        if not ft and isinstance(e.func, ast.Attribute):
            # method on builtin container
            m = e.func.attr
            if m in ("items", "values", "keys"):
                out.add(("b", "gen"))
            elif m in ("copy",):
                out |= self.type_of(e.func.value, scope)
            elif m in ("join", "format", "lower", "upper", "replace", "strip", "lstrip", "rstrip", "title"):
                out.add(("b", "str"))
            elif m in ("split",):
                out.add(("b", "list"))
            elif m in ("union", "intersection", "difference", "symmetric_difference"):
                out.add(("b", "set"))
        return frozenset(out)

    def _decorated_type(self, f):
        """If `f` carries repo decorators, the type of the name `f` is the
        result of applying them; returns set of types or None."""
        if not f.decorators or isinstance(f.node, ast.Lambda):
            return None
        cur = None
        for d in reversed(f.decorators):
            dn = dotted(d.func if isinstance(d, ast.Call) else d)
            if dn in ("property", "staticmethod", "classmethod", "wraps", "functools.wraps") or (dn and dn.endswith(".setter")):
                continue
            scope = f.parent or f.module
            dt = self.type_of(d, scope)
            res = set()
            for t in dt:
                if t[0] == "fn":
                    res |= self.ret_type(t[1])
            if res:
                cur = res
        return cur

    # ------------------------------------------------- who passes what to f
    def _build_param_args(self, previous=None):
        """Index: Func -> param name -> [(scope, expr|Func)] over all call
        sites in the package resolvable by simple name typing, plus decorator
        applications.  While (re)building, queries see the previous round."""
        idx = {}
        self._param_args = previous if previous is not None else {}
        prog = self.prog

        def record(callee, pname, scope, expr):
            idx.setdefault(callee, {}).setdefault(pname, []).append((scope, expr))

        scopes = list(prog.funcs.values())
        for scope in scopes:
            for n in walk_own(scope.body):
                if isinstance(n, ast.Call):
                    self._record_call(n, scope, record)
        for mod in prog.modules.values():
            for n in walk_own(mod.tree.body):
                if isinstance(n, ast.Call):
                    self._record_call(n, mod, record)
        # decorator applications
        for f in list(prog.funcs.values()):
            if isinstance(f.node, ast.Lambda):
                continue
            for d in f.decorators:
                dn = dotted(d.func if isinstance(d, ast.Call) else d)
                if dn in ("property", "staticmethod", "classmethod") or (dn and dn.endswith(".setter")):
                    continue
                scope = f.parent or f.module
                for t in self.type_of(d, scope):
                    if t[0] == "fn":
                        g = t[1]
                        pos = [p for p in g.params if p.kind in ("pos", "posonly")]
                        if g.self_param():
                            pos = pos[1:]
                        if pos:
                            record(g, pos[0].name, scope, f)
        self._param_args = idx

    def _record_call(self, n, scope, record):
        for t in self.type_of(n.func, scope):
            callee = None
            shift = 0
            if t[0] == "fn":
                callee = t[1]
                if callee.self_param() and isinstance(n.func, ast.Attribute):
                    shift = 1
            elif t[0] == "partial":
                callee = t[1]
            elif t[0] == "cls":
                g = t[1].lookup("__init__")
                if g and g[0] == "method":
                    callee = g[1]
                    shift = 1
            if callee is None:
                continue
            pos = [p for p in callee.params if p.kind in ("pos", "posonly")][shift:]
            for i, a in enumerate(n.args):
                if isinstance(a, ast.Starred):
                    break
                if i < len(pos):
                    record(callee, pos[i].name, scope, a)
            for k in n.keywords:
                if k.arg and callee.param(k.arg):
                    record(callee, k.arg, scope, k.value)
        # partial(f, a, b=...)
        d = dotted(n.func)
        if d in ("partial", "functools.partial") and n.args:
            for t in self.type_of(n.args[0], scope):
                if t[0] == "fn":
                    callee = t[1]
                    pos = [p for p in callee.params if p.kind in ("pos", "posonly")]
                    for i, a in enumerate(n.args[1:]):
                        if i < len(pos):
                            record(callee, pos[i].name, scope, a)
                    for k in n.keywords:
                        if k.arg and callee.param(k.arg):
                            record(callee, k.arg, scope, k.value)

    def param_args(self, f, pname):
        return self._param_args.get(f, {}).get(pname, [])

    # ----------------------------------------------------------- call graph
    def sites(self, func):
        """(list[Site], list[ExtCall]) for everything `func` may invoke."""
        if func in self._sites_memo:
            return self._sites_memo[func]
        sites, ext = [], []
        self._sites_memo[func] = (sites, ext)
        for n in walk_own(func.body):
            self._sites_of_node(n, func, sites, ext)
        return sites, ext

    def call_sites_of(self, call, scope):
        sites, ext = [], []
        self._call_sites(call, scope, sites, ext)
        return sites

    def _sites_of_node(self, n, func, sites, ext):
        prog = self.prog
        if isinstance(n, ast.Call):
            self._call_sites(n, func, sites, ext)
        elif isinstance(n, ast.Attribute) and isinstance(n.ctx, ast.Load):
            self._getter_sites(n, n.value, n.attr, func, sites)
        elif isinstance(n, (ast.Assign, ast.AugAssign, ast.AnnAssign)):
            targets = n.targets if isinstance(n, ast.Assign) else [n.target]
            value = n.value
            for t in targets:
                self._store_sites(t, value, func, sites, ext, n)
        elif isinstance(n, ast.Delete):
            for t in n.targets:
                if isinstance(t, ast.Subscript):
                    self._op_sites(n, "__delitem__", t.value, [t.slice], func, sites)
        elif isinstance(n, ast.Compare):
            left = n.left
            for op, right in zip(n.ops, n.comparators):
                if type(op) in (ast.Eq, ast.NotEq):
                    self._op_sites(n, "__eq__", left, [right], func, sites)
                    self._op_sites(n, "__eq__", right, [left], func, sites)
                    if isinstance(op, ast.NotEq):
                        self._op_sites(n, "__ne__", left, [right], func, sites)
                elif type(op) in (ast.In, ast.NotIn):
                    self._op_sites(n, "__contains__", right, [left], func, sites)
                    # membership in a builtin container compares by ==
                    self._op_sites(n, "__eq__", left, [right], func, sites, elem_of=right)
                left = right
        elif isinstance(n, ast.Subscript) and isinstance(n.ctx, ast.Load):
            self._op_sites(n, "__getitem__", n.value, [n.slice], func, sites, typed_only=True)
        elif isinstance(n, (ast.For, ast.comprehension)):
            self._op_sites(n, "__iter__", n.iter, [], func, sites)
        elif isinstance(n, ast.FormattedValue):
            self._op_sites(n, "__repr__" if n.conversion == 114 else "__str__", n.value, [], func, sites)
            self._op_sites(n, "__repr__", n.value, [], func, sites)
        elif isinstance(n, (ast.If, ast.While, ast.IfExp)):
            pass

    def _getter_sites(self, node, recv, attr, func, sites):
        prog = self.prog
        rt = self.type_of(recv, func)
        found = False
        typed = [t for t in rt if t[0] in ("inst", "cls")]
        if isinstance(recv, ast.Call) and dotted(recv.func) == "super" and func.cls:
            for c in func.cls.mro[1:]:
                if attr in c.props and "get" in c.props[attr]:
                    sites.append(Site(func, node, c.props[attr]["get"], "getter",
                                      recv=ast.Name(id=func.self_param() or "self", ctx=ast.Load())))
                    break
            return
        if typed:
            for t in typed:
                for g in self._lookup_attr(t, attr):
                    if g[0] == "meta":
                        g = g[1:]
                    if g[0] == "prop" and "get" in g[1]:
                        if t[0] == "cls" and g[2] in t[1].mro:
                            # Class.prop on the class itself yields the property object
                            continue
                        sites.append(Site(func, node, g[1]["get"], "getter", recv=recv, edge="resolved"))
                        found = True
            return
        if any(t[0] in ("b", "ext", "extinst", "mod", "fn") for t in rt) and rt:
            return
        for c, p in prog.props_named(attr):
            if "get" in p:
                sites.append(Site(func, node, p["get"], "getter", recv=recv, edge="cha"))

    def _store_sites(self, t, value, func, sites, ext, stmt):
        prog = self.prog
        if isinstance(t, ast.Attribute):
            rt = self.type_of(t.value, func)
            typed = [x for x in rt if x[0] in ("inst", "cls")]
            if typed:
                for x in typed:
                    for g in self._lookup_attr(x, t.attr):
                        if g[0] == "meta":
                            g = g[1:]
                        if g[0] == "prop" and "set" in g[1]:
                            sites.append(Site(func, stmt, g[1]["set"], "setter", recv=t.value, args=[value]))
            elif not rt:
                for c, p in prog.props_named(t.attr):
                    if "set" in p:
                        sites.append(Site(func, stmt, p["set"], "setter", recv=t.value, args=[value], edge="cha"))
        elif isinstance(t, ast.Subscript):
            self._op_sites(stmt, "__setitem__", t.value, [t.slice, value], func, sites)
        elif isinstance(t, (ast.Tuple, ast.List)):
            for e in t.elts:
                self._store_sites(e, value, func, sites, ext, stmt)

    def _op_sites(self, node, dunder, recv, args, func, sites, typed_only=False, elem_of=None):
        prog = self.prog
        rt = self.type_of(recv, func) if elem_of is None else self.elem_type_of(elem_of, func)
        typed = [t for t in rt if t[0] in ("inst", "cls")]
        if typed:
            for t in typed:
                c = t[1]
                if t[0] == "cls":
                    c = c.metaclass
                    if c is None:
                        continue
                g = c.lookup(dunder)
                cands = []
                if g and g[0] == "method":
                    cands.append(g[1])
                for s in prog.subclasses(c):
                    if dunder in s.methods:
                        cands.append(s.methods[dunder])
                for m in cands:
                    sites.append(Site(func, node, m, "op", recv=recv, args=args))
            return
        if rt and all(t[0] in ("b",) for t in rt):
            if dunder in ("__eq__", "__ne__") and any(t[1] in ("list", "dict", "tuple", "set") for t in rt):
                pass  # containers compare their elements: fall through to CHA
            elif dunder in ("__contains__",) and any(t[1] in ("list", "dict", "tuple", "set", "gen") for t in rt):
                return
            else:
                return
        if typed_only:
            return
        for m in prog.methods_named(dunder):
            sites.append(Site(func, node, m, "op", recv=recv, args=args, edge="cha"))

    def meta_instance_classes(self, meta):
        return sorted([k for k in self.prog.classes.values() if k.metaclass is meta and meta not in k.mro],
                      key=lambda c: c.qualname)

    def _ctor_sites(self, node, c, func, args, kwargs, star, dstar, sites, edge="resolved", subclasses=False):
        """Constructor call on class c (instances of c are created)."""
        classes = [c] + (self.prog.subclasses(c) if subclasses else [])
        seen = set()
        for k in classes:
            for name, kind in (("__new__", "new"), ("__init__", "ctor")):
                g = k.lookup(name)
                if g and g[0] == "method" and g[1] not in seen:
                    seen.add(g[1])
                    recv = "CLS" if kind == "new" else "FRESH"
                    sites.append(Site(func, node, g[1], kind, recv=recv, args=args, kwargs=kwargs,
                                      star=star, dstar=dstar, edge=edge))

    def _fallback_sites(self, node, recv, func, args, kwargs, star, dstar, sites, note=""):
        for m in self.call_classes:
            sites.append(Site(func, node, m, "call", recv=recv, args=args, kwargs=kwargs,
                              star=star, dstar=dstar, edge="fallback", note=note))
        # calling a class created by a repo metaclass
        for c in self.prog.classes.values():
            if c.metaclass is not None and c.metaclass not in c.mro:
                self._ctor_sites(node, c, func, args, kwargs, star, dstar, sites, edge="fallback")

    def _call_sites(self, n, func, sites, ext):
        prog = self.prog
        args = [a for a in n.args if not isinstance(a, ast.Starred)]
        star = any(isinstance(a, ast.Starred) for a in n.args)
        kwargs = {k.arg: k.value for k in n.keywords if k.arg}
        dstar = any(k.arg is None for k in n.keywords)
        d = dotted(n.func)
        fnode = n.func

        # super().m(...)
        if (isinstance(fnode, ast.Attribute) and isinstance(fnode.value, ast.Call)
                and dotted(fnode.value.func) == "super" and isinstance(func, Func) and func.cls):
            cls = func.cls
            sp = func.self_param()
            outer = func
            while outer.parent is not None:
                outer = outer.parent
            sp = outer.self_param()
            found = False
            for c in cls.mro[1:]:
                if fnode.attr in c.methods:
                    m = c.methods[fnode.attr]
                    recv = ast.Name(id=sp or "self", ctx=ast.Load())
                    kind = "ctor_super" if fnode.attr == "__init__" else "call"
                    sites.append(Site(func, n, m, kind, recv=recv, args=args, kwargs=kwargs, star=star, dstar=dstar))
                    found = True
                    break
            if not found:
                ext.append(ExtCall(func, n, f"super.{fnode.attr}", recv=None, args=args))
            return

        # higher-order externals: arguments that are repo callables get called
        ft = self.type_of(fnode, func)

        def passed_callables():
            if d in ("inspect.signature", "signature", "wraps", "functools.wraps", "isinstance", "id", "partial",
                     "functools.partial", "cast"):
                return
            for a in list(n.args) + [k.value for k in n.keywords]:
                if isinstance(a, ast.Starred):
                    a = a.value
                for t in self.type_of(a, func):
                    if t[0] in ("fn", "rawfn"):
                        sites.append(Site(func, n, t[1], "closurecall", recv=None, args=[], star=True, dstar=True,
                                          note="passed to callee"))
                    elif t[0] == "partial":
                        sites.append(Site(func, n, t[1], "closurecall", recv=None, args=[], star=True, dstar=True,
                                          note="passed to callee"))
                    elif t[0] == "ext" and t[1] in ("operator.ne", "operator.eq"):
                        for m in prog.methods_named("__eq__"):
                            sites.append(Site(func, n, m, "op", recv="UNKNOWNRECV", args=[], star=True, edge="cha"))

        gw = self.getattr_wrapper(n, func) if isinstance(n, ast.Call) else None
        if gw is not None and isinstance(gw[1], ast.Constant) and isinstance(gw[1].value, str):
            # a getattr wrapper called with a literal name: the property getter of exactly that name
            self._getter_sites(n, gw[0], gw[1].value, func, sites)
            return
        if d == "getattr" and len(n.args) >= 2:
            key = n.args[1]
            if isinstance(key, ast.Constant) and isinstance(key.value, str):
                self._getter_sites(n, n.args[0], key.value, func, sites)
            else:
                names = self.possible_strings(key, func)
                if names is None:
                    self.unknown_getattr.append((func, n))
                    names = sorted({pn for c in prog.classes.values() for pn in c.props})
                for pn in sorted(names):
                    before = len(sites)
                    self._getter_sites(n, n.args[0], pn, func, sites)
                    for s_ in sites[before:]:
                        s_.note = "getattr(computed)"
            ext.append(ExtCall(func, n, "getattr", args=n.args))
            return
        if d == "setattr" and len(n.args) == 3:
            key = n.args[1]
            for c in sorted(prog.classes.values(), key=lambda c: c.qualname):
                for pn, p in sorted(c.props.items()):
                    if "set" in p and (not isinstance(key, ast.Constant) or key.value == pn):
                        rt = self.type_of(n.args[0], func)
                        typed = [t for t in rt if t[0] == "inst"]
                        if typed and not any(c in t[1].mro for t in typed):
                            continue
                        sites.append(Site(func, n, p["set"], "setter", recv=n.args[0], args=[n.args[2]], edge="cha"))
            ext.append(ExtCall(func, n, "setattr", args=n.args))
            return
        if d in ("repr", "str") and len(n.args) == 1:
            self._op_sites(n, "__repr__", n.args[0], [], func, sites)
            if d == "str":
                self._op_sites(n, "__str__", n.args[0], [], func, sites)
            ext.append(ExtCall(func, n, d, args=n.args))
            return
        if d == "hash" and len(n.args) == 1:
            self._op_sites(n, "__hash__", n.args[0], [], func, sites)
            ext.append(ExtCall(func, n, d, args=n.args))
            return
        if d in ("set", "frozenset", "list", "tuple", "sorted", "dict", "iter", "enumerate") and len(n.args) >= 1:
            self._op_sites(n, "__iter__", n.args[0], [], func, sites)
        if d in ("set", "frozenset") and len(n.args) == 1:
            # hashing of the elements
            et = self.elem_type_of(n.args[0], func)
            if not et or any(t[0] in ("inst", "cls") for t in et):
                for m in prog.methods_named("__hash__"):
                    sites.append(Site(func, n, m, "op", recv="UNKNOWNRECV", edge="cha"))
        if d in ("bool",) and len(n.args) == 1:
            self._op_sites(n, "__bool__", n.args[0], [], func, sites, typed_only=True)

        if ft and all(t[0] == "b" for t in ft):
            # only non-callable builtin types inferred: the inference is incomplete, treat as unknown
            ft = UNK
        if not ft:
            # unknown callee
            if isinstance(fnode, ast.Attribute):
                recv_t = self.type_of(fnode.value, func)
                m = fnode.attr
                cands = prog.methods_named(m)
                if cands and not (recv_t and all(t[0] in ("b", "ext", "extinst", "mod") for t in recv_t)):
                    for c in cands:
                        if c.kind == "staticmethod":
                            sites.append(Site(func, n, c, "call", recv=None, args=args, kwargs=kwargs, star=star, dstar=dstar, edge="cha"))
                        elif c.kind == "classmethod":
                            sites.append(Site(func, n, c, "call", recv="CLS", args=args, kwargs=kwargs, star=star, dstar=dstar, edge="cha"))
                        else:
                            sites.append(Site(func, n, c, "call", recv=fnode.value, args=args, kwargs=kwargs, star=star, dstar=dstar, edge="cha"))
                    # also property-returning-callable, e.g. x.__properties__(v)
                for c, p in prog.props_named(m):
                    if "get" in p and not (recv_t and all(t[0] in ("b", "ext", "extinst", "mod") for t in recv_t)):
                        for t in self.ret_type(p["get"]):
                            self._call_value(n, t, None, func, args, kwargs, star, dstar, sites, ext, edge="cha")
                ext.append(ExtCall(func, n, "." + m, recv=fnode.value, args=n.args))
                passed_callables()
                return
            # call on a local / expression of unknown type
            recv = fnode
            self._fallback_sites(n, recv, func, args, kwargs, star, dstar, sites, note=norm(fnode))
            ext.append(ExtCall(func, n, "<unknown>", recv=fnode, args=n.args))
            return

        for t in sorted(ft, key=repr):
            recv = None
            if isinstance(fnode, ast.Attribute):
                recv = fnode.value
            self._call_value(n, t, recv, func, args, kwargs, star, dstar, sites, ext, fnode=fnode)
        if any(t[0] in ("ext", "extinst", "b") for t in ft):
            passed_callables()

    def _call_value(self, n, t, recv, func, args, kwargs, star, dstar, sites, ext, edge="resolved", fnode=None):
        prog = self.prog
        if t[0] in ("fn", "rawfn"):
            f = t[1]
            # decorated function: the name is bound to the wrapper
            wrapped = self._decorated_type(f) if t[0] == "fn" else None
            if wrapped:
                for w in wrapped:
                    if w[0] == "fn":
                        sites.append(Site(func, n, w[1], "call", recv=None, args=args, kwargs=kwargs,
                                          star=star, dstar=dstar, edge=edge, note=f"decorator wrapper of {f.short}"))
                return
            if f.self_param() and f.cls is not None:
                if f.kind == "classmethod":
                    sites.append(Site(func, n, f, "call", recv="CLS", args=args, kwargs=kwargs, star=star, dstar=dstar, edge=edge))
                    # overrides in subclasses
                    if recv is not None:
                        for rt in self.type_of(recv, func):
                            if rt[0] == "cls":
                                for s in prog.subclasses(rt[1]):
                                    if f.name in s.methods and s.methods[f.name] is not f:
                                        sites.append(Site(func, n, s.methods[f.name], "call", recv="CLS", args=args,
                                                          kwargs=kwargs, star=star, dstar=dstar, edge=edge))
                    return
                explicit_self = False
                if recv is not None:
                    rts = self.type_of(recv, func)
                    if rts and all(x[0] == "cls" for x in rts) and f.name not in ("__new__",):
                        explicit_self = True  # Class.method(obj, ...)
                    if f.name == "__new__" and rts and any(x[0] in ("cls", "ext", "super") for x in rts):
                        explicit_self = True
                if explicit_self:
                    sites.append(Site(func, n, f, "call", recv=None, args=args, kwargs=kwargs, star=star, dstar=dstar, edge=edge))
                else:
                    sites.append(Site(func, n, f, "call", recv=recv, args=args, kwargs=kwargs, star=star, dstar=dstar, edge=edge))
                return
            sites.append(Site(func, n, f, "call", recv=None, args=args, kwargs=kwargs, star=star, dstar=dstar, edge=edge))
            return
        if t[0] == "partial":
            f = t[1]
            pre_args, pre_kwargs = [], {}
            for scope, call in self._partial_defs(f):
                pre_args = [a for a in call.args[1:]]
                pre_kwargs = {k.arg: k.value for k in call.keywords if k.arg}
            kw = dict(pre_kwargs)
            kw.update(kwargs)
            sites.append(Site(func, n, f, "call", recv=None, args=list(pre_args) + args, kwargs=kw, star=star, dstar=dstar,
                              edge=edge, note="partial"))
            return
        if t[0] == "cls":
            c = t[1]
            is_meta = any(b == "type" for b in c.ext_bases())
            receiver_is_param = False
            if fnode is not None and isinstance(fnode, ast.Name) and isinstance(func, Func):
                outer = func
                while outer is not None:
                    if outer.self_param() == fnode.id and outer.kind in ("classmethod",) or (
                            outer.self_param() == fnode.id and outer.name == "__new__"):
                        receiver_is_param = True
                    outer = outer.parent
            self._ctor_sites(n, c, func, args, kwargs, star, dstar, sites, edge=edge, subclasses=receiver_is_param)
            if c.metaclass is not None and c.metaclass not in c.mro:
                pass
            if not (c.lookup("__init__") or c.lookup("__new__")):
                ext.append(ExtCall(func, n, f"ctor:{c.name}", args=args))
            return
        if t[0] == "inst":
            c = t[1]
            if any(b == "type" for b in c.ext_bases()):
                # instance of a metaclass is a class: calling constructs it
                for k in self.meta_instance_classes(c):
                    self._ctor_sites(n, k, func, args, kwargs, star, dstar, sites, edge=edge)
                return
            g = c.lookup("__call__")
            cands = []
            if g and g[0] == "method":
                cands.append(g[1])
            for s in prog.subclasses(c):
                if "__call__" in s.methods:
                    cands.append(s.methods["__call__"])
                if any(b == "type" for b in s.ext_bases()):
                    # an instance of c may be a class created by metaclass s: calling it constructs
                    for k in self.meta_instance_classes(s):
                        self._ctor_sites(n, k, func, args, kwargs, star, dstar, sites, edge=edge)
            callrecv = fnode if fnode is not None else recv
            for m in cands:
                sites.append(Site(func, n, m, "call", recv=callrecv, args=args, kwargs=kwargs, star=star, dstar=dstar, edge=edge))
            if not cands:
                self._fallback_sites(n, callrecv, func, args, kwargs, star, dstar, sites, note="instance without __call__")
            return
        if t[0] == "super":
            return
        if t[0] in ("ext", "extinst", "b", "mod"):
            name = t[1] if t[0] != "b" else f"<{t[1]}>"
            if t[0] == "extinst":
                # calling the result of an external call (e.g. register[name](value))
                self._fallback_sites(n, fnode, func, args, kwargs, star, dstar, sites, note="result of external call")
                name = f"({t[1]})()"
            ext.append(ExtCall(func, n, name, recv=recv, args=n.args))
            return

    def _partial_defs(self, f):
        out = []
        for scope in list(self.prog.funcs.values()):
            for x in walk_own(scope.body):
                if isinstance(x, ast.Call) and dotted(x.func) in ("partial", "functools.partial") and x.args:
                    if any(t == ("fn", f) for t in self.type_of(x.args[0], scope)):
                        out.append((scope, x))
        return out

    # ----------------------------------------------------------- reachability
    def reachable(self, roots, edge_filter=None):
        """Functions reachable from roots; returns dict Func -> (pred Func, Site)."""
        seen = {}
        work = []
        for r in roots:
            seen[r] = None
            work.append(r)
        while work:
            f = work.pop()
            sites, _ = self.sites(f)
            for s in sites:
                if edge_filter and not edge_filter(s):
                    continue
                if s.callee not in seen:
                    seen[s.callee] = (f, s)
                    work.append(s.callee)
        return seen

    def callers_of(self, f):
        """All repo functions with a call site whose callee may be f."""
        idx = getattr(self, "_callers_idx", None)
        if idx is None:
            idx = {}
            for g in list(self.prog.all_funcs()):
                for s_ in self.sites(g)[0]:
                    idx.setdefault(s_.callee, set()).add(g)
            self._callers_idx = idx
        return idx.get(f, set())

    def helper_of(self, f, owner_short, depth=3):
        """f is a private helper used only (transitively) by the function named owner_short."""
        if f.short == owner_short:
            return True
        if depth == 0 or not f.name.startswith("_") or f.name.startswith("__"):
            return False
        callers = self.callers_of(f)
        return bool(callers) and all(c is f or self.helper_of(c, owner_short, depth - 1) for c in callers)

    def path_to(self, reach, f):
        out = []
        cur = f
        while reach.get(cur) is not None:
            pred, site = reach[cur]
            out.append(f"{pred.short} -> {cur.short} [{site.kind}/{site.edge}]")
            cur = pred
        return list(reversed(out))

    def edge_counts(self, funcs):
        counts = {"resolved": 0, "cha": 0, "fallback": 0}
        for f in funcs:
            for s in self.sites(f)[0]:
                counts[s.edge] += 1
        return counts
