"""Driver: `run.py <Cnn> [--tier quick|thorough] [--repo PATH] [--replay FILE]`.

Exit 0: every obligation discharged, or only listed known findings violated.
Exit 1: prints `VIOLATION property=<id> replay=<path>` per unlisted violation.
Exit 2: `ANALYSIS-ERROR ...` - the analysis could not see what it needs.
"""
import json
import os
import sys
import time
import traceback

HERE = os.path.dirname(os.path.abspath(__file__))
VERIF = os.path.dirname(HERE)
sys.path.insert(0, VERIF)

from sa.core import Ctx, RULES, load_known  # noqa: E402
from sa.model import AnalysisError  # noqa: E402
from sa import props  # noqa: E402
from sa import rules_all  # noqa: E402,F401  (registers the rules)


def main(argv):
    args = list(argv)
    if not args or args[0] in ("-h", "--help"):
        print(__doc__)
        return 2
    pid = args.pop(0)
    if pid == "--selfcheck":
        # setup: nothing to build; prove the analysers load and can parse the repository
        try:
            ctx = Ctx(os.environ.get("VERIF_REPO", "/repo"))
            print(f"selfcheck ok: {len(ctx.prog.modules)} modules, {len(ctx.prog.funcs)} functions, "
                  f"{len(RULES)} rules registered")
            return 0
        except AnalysisError as exc:
            print(f"ANALYSIS-ERROR selfcheck {exc}")
            return 2
    tier = os.environ.get("VERIF_TIER", "quick")
    repo = os.environ.get("VERIF_REPO", "/repo")
    replay = None
    evidence_dir = os.path.join(VERIF, "evidence")
    write_evidence = True
    while args:
        a = args.pop(0)
        if a == "--tier":
            tier = args.pop(0)
        elif a == "--repo":
            repo = args.pop(0)
        elif a == "--replay":
            replay = args.pop(0)
        elif a == "--evidence-dir":
            evidence_dir = args.pop(0)
        elif a == "--no-evidence":
            write_evidence = False
        else:
            print(f"ANALYSIS-ERROR unknown argument {a}")
            return 2
    if tier not in ("quick", "thorough"):
        tier = "quick"
    try:
        seed = int(os.environ.get("VERIF_SEED", "0"))
    except ValueError:
        seed = 0
    t0 = time.time()
    try:
        return run_property(pid, tier, repo, replay, evidence_dir, write_evidence, seed, t0)
    except AnalysisError as exc:
        print(f"ANALYSIS-ERROR property={pid} {exc}")
        return 2
    except Exception:  # pylint: disable=broad-except
        tb = traceback.format_exc()
        print(f"ANALYSIS-ERROR property={pid} internal error in the analyser:\n{tb}")
        return 2


def run_property(pid, tier, repo, replay, evidence_dir, write_evidence, seed, t0):
    if pid not in props.PROPS:
        raise AnalysisError(f"unknown property {pid}")
    spec = props.PROPS[pid]
    ctx = Ctx(repo)
    known = load_known(os.path.join(VERIF, "known_findings.json"))
    results = []
    pending = [rid for rid in spec["rules"] if rid not in RULES]
    if pending:
        print(f"note: rules planned for {pid} but not yet implemented: {', '.join(pending)}")
    rule_errors = []
    for rid in spec["rules"]:
        if rid in RULES:
            try:
                results.append(ctx.rule_result(rid))
            except AnalysisError as exc:
                rule_errors.append(f"{rid}: {exc}")
    if not results and not rule_errors:
        raise AnalysisError(f"no rule of {pid} is implemented")
    extra_notes = []
    replay_filter = None
    if replay:
        with open(replay, encoding="utf8") as fh:
            rp = json.load(fh)
        replay_filter = (rp["rule"], rp["site"], rp["construct"])

    obligations = [o for r in results for o in r.obligations]
    violations = [o for o in obligations if o.status == "violation"]
    if replay_filter:
        violations = [o for o in violations if o.key() == replay_filter]
    known_hits, new = [], []
    for o in violations:
        entry = match_known(known, pid, o)
        if entry is not None:
            known_hits.append((o, entry))
        else:
            new.append(o)
    for o, entry in known_hits:
        print(f"KNOWN-FINDING: property={pid} {o.rule} {o.site} :: {o.construct} -- {entry.get('what', '')}")
    vdir = os.path.join(evidence_dir, "violations")
    for o in new:
        path = os.path.join(vdir, f"{pid}-{o.rule}-{o.digest()}.json")
        if write_evidence:
            os.makedirs(vdir, exist_ok=True)
            with open(path, "w", encoding="utf8") as fh:
                json.dump({"property": pid, **o.as_dict()}, fh, indent=1, default=str)
        print(f"  {o.rule} {o.site} :: {o.construct}")
        if o.reason:
            print(f"      {o.reason}")
        for line in (o.detail.get("path") or [])[:12]:
            print(f"      {line}")
        print(f"VIOLATION property={pid} replay={path}")
    if tier == "thorough" and not new and not rule_errors and not replay:
        from sa import thorough
        extra_notes = thorough.run(pid, spec, ctx, repo)
    if rule_errors and not new:
        # nothing to report, but part of the analysis could not see: never a silent pass
        raise AnalysisError("; ".join(rule_errors))
    for e in rule_errors:
        print(f"note: rule could not complete on this tree (reported violations come from the other rules): {e}")
    wall = time.time() - t0
    if write_evidence and not replay:
        write_ev(pid, spec, tier, seed, results, obligations, violations, known_hits, new, wall,
                 evidence_dir, extra_notes, ctx)
    n_ok = sum(1 for o in obligations if o.status != "violation")
    print(f"{pid} [{tier}] rules={','.join(r.rule for r in results)} obligations={len(obligations)} "
          f"discharged={n_ok} known={len(known_hits)} new_violations={len(new)} wall={wall:.2f}s")
    return 1 if new else 0


def match_known(known, pid, o):
    for e in known:
        if e.get("status") != "finding":
            continue
        if e.get("rule") != o.rule:
            continue
        if pid not in e.get("properties", []):
            continue
        if e.get("site") == o.site and e.get("construct") == o.construct:
            return e
    return None


def write_ev(pid, spec, tier, seed, results, obligations, violations, known_hits, new, wall,
             evidence_dir, extra_notes, ctx):
    os.makedirs(evidence_dir, exist_ok=True)
    nontrivial = {o.key() for o in obligations}
    samples = []
    per_rule = {}
    for r in results:
        per_rule[r.rule] = {
            "title": r.title,
            "obligations": len(r.obligations),
            "violations": len(r.violations()),
            "stats": r.stats,
        }
        for o in r.obligations[:2]:
            samples.append(o.as_dict())
        for o in [x for x in r.obligations if x.status == "justified"][:3]:
            samples.append(o.as_dict())
    for o in violations[:10]:
        samples.append(o.as_dict())
    n_mod = len(ctx.prog.modules)
    n_fun = len(ctx.prog.funcs)
    n_cls = len(ctx.prog.classes)
    ev = {
        "property_id": pid,
        "tier": tier,
        "seed": seed,
        "level": "other",
        "coverage": {
            "explanation": (
                f"Static analysis of /repo/statham source (no execution): {n_mod} modules, {n_cls} classes, "
                f"{n_fun} functions parsed with ast; rules applied: "
                + "; ".join(f"{r.rule} ({r.title})" for r in results)
                + ". " + spec.get("decides", "")),
            "obligations": len(obligations),
            "discharged": sum(1 for o in obligations if o.status != "violation"),
            "evaluations": len(obligations),
            "distinct_nontrivial": len(nontrivial),
            "rule": ("one evaluation = one rule instance (a construct in the source to which a rule's "
                     "precondition applies: a write, a raise/partial operation, a set-typed expression, a table row, "
                     "a branch of a guard table); distinct = distinct (rule, function, normalised construct)"),
            "samples": samples[:40],
            "per_rule": per_rule,
            "known_findings_hit": [
                {"rule": o.rule, "site": o.site, "construct": o.construct} for o, _ in known_hits],
            "not_decided": spec.get("not_decided", ""),
            "checker_cmd": f"./check {pid} --tier {tier}",
            "trusted_base": ["CPython ast module", "the analysers under /verif/sa",
                             "catalogue of stdlib/third-party behaviour in sa/escape.py and sa/effects.py"],
            "thorough_notes": extra_notes,
        },
        "assumptions": spec.get("assumptions", []) + props.COMMON_ASSUMPTIONS,
        "wall_s": round(wall, 3),
        "violations": len(new),
    }
    path = os.path.join(evidence_dir, f"{pid}.json")
    tmp = path + ".tmp"
    with open(tmp, "w", encoding="utf8") as fh:
        json.dump(ev, fh, indent=1, default=str)
    os.replace(tmp, path)


if __name__ == "__main__":
    sys.exit(main(sys.argv[1:]))
