"""Developer helper: run every claimed check against behaviour-preserving refactorings (scratch copies).
  tools_benign.py import <srcdir> <prefix>   copy <srcdir>/<i>/patch.diff into /verif/benign/<prefix>-<i>/
  tools_benign.py run [ids...]
"""
import json, os, shutil, subprocess, sys, tempfile
from concurrent.futures import ThreadPoolExecutor
VERIF = os.path.dirname(os.path.abspath(__file__))


def imp(src, prefix):
    for i in sorted(os.listdir(src)):
        p = os.path.join(src, i, "patch.diff")
        if os.path.exists(p):
            d = os.path.join(VERIF, "benign", f"{prefix}-{i}")
            os.makedirs(d, exist_ok=True)
            shutil.copy(p, os.path.join(d, "patch.diff"))
            n = os.path.join(src, i, "notes.md")
            if os.path.exists(n):
                shutil.copy(n, os.path.join(d, "notes.md"))
            print("imported", d)


def one(bid):
    d = os.path.join(VERIF, "benign", bid)
    root = tempfile.mkdtemp(prefix="benign_")
    try:
        shutil.copytree("/repo/statham", os.path.join(root, "statham"), ignore=shutil.ignore_patterns("__pycache__"))
        ap = subprocess.run(["patch", "-p1", "-s", "-f", "-d", root, "-i", os.path.join(d, "patch.diff")], capture_output=True, text=True)
        if ap.returncode != 0:
            return bid, {"error": "patch does not apply"}
        claimed = json.load(open(os.path.join(VERIF, "claimed.json")))
        out = {}
        for pid in claimed:
            p = subprocess.run([os.path.join(VERIF, "check"), pid, "--repo", root, "--no-evidence"], capture_output=True, text=True)
            if p.returncode != 0:
                lines = [l.strip()[:230] for l in p.stdout.splitlines() if (l.startswith("  ") and "::" in l and not l.startswith("      ")) or l.startswith("ANALYSIS")]
                out[pid] = (p.returncode, lines[:3])
        return bid, out
    finally:
        shutil.rmtree(root, ignore_errors=True)


def run(ids):
    base = os.path.join(VERIF, "benign")
    ids = ids or sorted(os.listdir(base))
    with ThreadPoolExecutor(14) as ex:
        for bid, out in ex.map(one, ids):
            print(bid, "SILENT" if not out else out)


if __name__ == "__main__":
    if sys.argv[1] == "import":
        imp(sys.argv[2], sys.argv[3])
    elif sys.argv[1] == "run":
        run(sys.argv[2:])


def run_rules(rules, ids):
    sys.path.insert(0, VERIF)
    from sa.core import Ctx
    from sa.model import AnalysisError
    from sa import rules_all  # noqa
    base = os.path.join(VERIF, "benign")
    ids = ids or sorted(os.listdir(base))
    for bid in ids:
        root = tempfile.mkdtemp(prefix="benign_")
        try:
            shutil.copytree("/repo/statham", os.path.join(root, "statham"), ignore=shutil.ignore_patterns("__pycache__"))
            ap = subprocess.run(["patch", "-p1", "-s", "-f", "-d", root, "-i", os.path.join(base, bid, "patch.diff")], capture_output=True, text=True)
            if ap.returncode != 0:
                print(bid, "patch does not apply"); continue
            ctx = Ctx(root)
            out = {}
            for r in rules:
                try:
                    from sa.selftest import KNOWN_KEYS
                    v = [o for o in ctx.rule_result(r).violations() if (o.rule, o.site, o.construct) not in KNOWN_KEYS()]
                    if v:
                        out[r] = [o.site.split("::")[-1] + " :: " + o.construct[:70] for o in v[:3]]
                except AnalysisError as e:
                    out[r] = "ERR " + str(e)[:200]
            print(bid, "SILENT" if not out else out)
        finally:
            shutil.rmtree(root, ignore_errors=True)


if __name__ == "__main__" and sys.argv[1] == "rules":
    run_rules(sys.argv[2].split(","), sys.argv[3:])
