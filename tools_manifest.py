"""Developer helper: regenerate MANIFEST.json from sa/props.py.
Usage: /venv/bin/python -I -S tools_manifest.py
CLAIMED lists the properties whose every rule is implemented and passing."""
import json
import os
import sys

sys.path.insert(0, os.path.dirname(os.path.abspath(__file__)))
from sa import props  # noqa: E402

CLAIMED = json.load(open(os.path.join(os.path.dirname(os.path.abspath(__file__)), "claimed.json")))

LEVEL_TEXT = {
    "core": "Static analysis (no execution) that decides the property's core statement for every input, schedule "
            "and history at once, under the recorded assumptions: ",
    "necessary": "Static analysis (no execution) that decides the listed structural clauses, each a necessary "
                 "condition of the property (breaking one breaks the behaviour); it can refute the property, not "
                 "establish the behaviour as a whole: ",
}

STRENGTH = {
    "C01": "necessary", "C02": "necessary", "C03": "necessary", "C04": "necessary", "C05": "necessary",
    "C06": "necessary", "C07": "necessary", "C08": "core", "C09": "core", "C10": "core", "C11": "necessary",
    "C12": "necessary", "C13": "core", "C14": "core", "C15": "necessary", "C16": "core", "C17": "necessary",
    "C18": "necessary", "C19": "necessary", "C20": "core",
}

TECHNIQUE = {
    "C01": "static analysis: sibling-table agreement + guard tables (comparison normal forms, type guards, composition counting) over the AST",
    "C02": "static analysis: codegen taint (schema text -> emitted source), import-vocabulary and position-table agreement",
    "C03": "static analysis: no-kill dataflow in the serializer, name-kind (JSON vs Python name) dataflow, sibling-table agreement",
    "C04": "static analysis: structural rebuild rules (no filter/slice in member-by-member reconstruction) + ownership/effect analysis",
    "C05": "static analysis: guard tables over not-passed atoms for the default decision, name-kind dataflow, falsy-literal lint",
    "C06": "static analysis: sibling-table agreement (parser/serializer/repr/class generator), must-use and no-kill dataflow",
    "C07": "static analysis: must-use dataflow for extracted defaults, falsy-literal lint, codegen taint for the docstring",
    "C08": "static analysis: interprocedural ownership/effect analysis over the resolved call graph (no shared write reachable from validation roots)",
    "C09": "static analysis: unordered-iteration dataflow (set-typed expressions -> order-sensitive consumers) + nondeterminism-source taint",
    "C10": "static analysis: interprocedural exception-escape analysis with a partial-operation catalogue and guard discharge",
    "C11": "static analysis: position-table agreement with Element.__init__ annotations + dominance of the cycle test over the first yield",
    "C12": "static analysis: character-class abstract domain over the name-mapping function + guard presence rules",
    "C13": "static analysis: effect analysis (nothing derived is stored), caching-decorator lint, constructor-stores-parameter table",
    "C14": "static analysis: ownership/effect analysis (no shared write => no race; per-call helpers fresh)",
    "C15": "static analysis: clone-taint of inherited properties, copy-constructor field agreement, slot agreement, effect analysis",
    "C16": "static analysis: guard table of the format dispatcher + exception-escape analysis of the built-in checkers",
    "C17": "static analysis: class-guard idiom and attribute-filter evaluation of __eq__, constructor-stores-parameter table",
    "C18": "static analysis: constructor-stores-parameter table + structural rules on the signature-driven repr",
    "C19": "static analysis: guard tables for Maybe[] elision, annotation/type-validator table agreement, annotation-source completeness",
    "C20": "static analysis: dominance of the unsupported-keyword test in parse_element, position-table agreement, recursion-conversion rule",
}


def build():
    checks = []
    na = []
    for pid in sorted(props.PROPS):
        spec = props.PROPS[pid]
        if pid in CLAIMED:
            strength = STRENGTH[pid]
            checks.append({
                "property_id": pid,
                "quick_cmd": f"./check {pid} --tier quick",
                "thorough_cmd": f"./check {pid} --tier thorough",
                "evidence_file": f"/verif/evidence/{pid}.json",
                "replay_cmd_template": f"./check {pid} --replay {{path}}",
                "engine": "sa",
                "level_claimed": {
                    "category": "other",
                    "text": LEVEL_TEXT[strength] + spec["decides"] + " Not decided: " + spec.get("not_decided", "-")
                            + " Rules: " + ", ".join(spec["rules"]) + ".",
                    "design_ref": f"DESIGN.md section 4 ({pid}) and section 3 (rules {', '.join(spec['rules'])})",
                },
                "level_note": "Trusted base: CPython's ast module and the analysers in /verif/sa. Assumptions: "
                              + "; ".join(spec.get("assumptions", []) + props.COMMON_ASSUMPTIONS),
                "technique": TECHNIQUE[pid],
            })
        else:
            na.append({"property_id": pid,
                       "reason": CLAIMED_REASONS.get(pid, "check not yet built in this round (static rules "
                                                          + ", ".join(spec["rules"]) + " are planned in DESIGN.md)")})
    manifest = {
        "version": 1,
        "setup_cmd": "./check --selfcheck",
        "hooks": {
            "guard": "STATHAM_SCHEMA_VERIF",
            "enable": "no hooks or instrumentation are added to the repository; the checks read /repo's source only",
            "baseline_off_cmd": "cd /repo && /venv/bin/python -m pytest -ra -q -p no:cacheprovider --timeout=900 "
                                "--continue-on-collection-errors",
            "source_commits": SOURCE_COMMITS,
            "add_only": True,
        },
        "engines": [{
            "name": "sa",
            "path": "/verif/sa",
            "serves_properties": sorted(CLAIMED),
            "kind_free_text": "repository-specific static analysers over the Python AST: program model, light type "
                              "inference, call graph, ownership/effect, exception-escape, unordered-iteration, "
                              "guard tables, sibling-table agreement; never imports or runs the repository",
        }],
        "checks": checks,
        "not_applicable": na,
        "notes": "All checks are static analysis (ast-based) run as `/venv/bin/python -I -S`; exit 2 with an "
                 "ANALYSIS-ERROR line means the analysis could not see an anchor (never a VIOLATION). "
                 "Genuine defects found and repaired are listed in known_findings.json (status fixed) and in "
                 "hooks.source_commits; recorded-but-unrepaired defects are status finding.",
    }
    return manifest


CLAIMED_REASONS = {}
SOURCE_COMMITS = []
try:
    kf = json.load(open(os.path.join(os.path.dirname(os.path.abspath(__file__)), "known_findings.json")))
    for e in kf["entries"]:
        if e.get("status") == "fixed" and e.get("commit") and e["commit"] not in SOURCE_COMMITS:
            SOURCE_COMMITS.append(e["commit"])
except FileNotFoundError:
    pass

if __name__ == "__main__":
    m = build()
    with open(os.path.join(os.path.dirname(os.path.abspath(__file__)), "MANIFEST.json"), "w") as fh:
        json.dump(m, fh, indent=1)
    print("claimed:", sorted(CLAIMED))
